package main

import (
	"bufio"
	"fmt"
	"os"
	"sort"
	"strconv"
	"strings"
	"time"

	"github.com/openziti/storage/ast"
	"github.com/openziti/storage/boltz"
	"go.etcd.io/bbolt"
)

// b cases: Store.QueryIds / IterateIds over real bbolt stores.
//
//	b <nstores> {<store>}* <root store> <nfmt> {<bits> <hex>}* <filter> @ <zitiql-hex>
//	  sym   = <name> id|field|set <type> <linked store|->
//	        | <name> ext <type> - b|s|f <n> {<id-hex> <value>}* <default value>     (AddEntitySymbol: NewBoolFuncSymbol,
//	                                                    NewStringFuncSymbol (value N = nil result), a custom EntitySymbol)
//	        | <name> mapped <type> <linked store|-> <key> <mapper id>                 (AddSymbolWithKey / AddFkSymbolWithKey + MapSymbol)
//	  store = <nsyms> {<sym>}* <nmaps> {<name> <type> <key> <npfx> <pfx>*}*
//	          <parent store|-> <extended 0|1> <nearly> <npath> <path>* <nrows> {<row>}*
//	          (a child store: StoreDefinition.Parent / Extended() / BasePath; the first <nearly> symbols are registered
//	           before parent.GrantSymbols(child), the others and the map symbols after; its rows are the parent entities
//	           that have child data, with the child's own fields / sets / sub-buckets)
//	  row   = <id-hex> <nfields> {<key> <value>}* <nsets> {<key> L<k> <value>*k}* <nbuckets> {<key> <node>}*
//	  node  = v <value> | b <n> {<key> <node>}* | l <n> <node>*     (the non-set sub-buckets of the entity bucket)
//
// Output: ok <shape> <ids of QueryIds> <ids collected from IterateIds>   (ids hex, comma separated, - = none)
//       | err

type c01BSym struct {
	name   string
	kind   string // id field set ext mapped
	typ    ast.NodeType
	linked int // -1 = none
	key    string     // mapped: the key of the wrapped entitySymbol
	mapper int        // mapped: which SymbolMapper
	ext    *c01ExtTab // ext: the function as a table
}

func sy(name, kind string, typ ast.NodeType, linked int) c01BSym {
	return c01BSym{name: name, kind: kind, typ: typ, linked: linked}
}

// an externally computed symbol: kind b = NewBoolFuncSymbol, s = NewStringFuncSymbol, f = c01CustomSym
type c01ExtTab struct {
	kind    byte
	entries map[string]c01Val
	dflt    c01Val
}

func (t *c01ExtTab) at(id string) c01Val {
	if v, ok := t.entries[id]; ok {
		return v
	}
	return t.dflt
}

// an EntitySymbol implemented outside boltz (every method of the interface is exported)
type c01CustomSym struct {
	store boltz.Store
	name  string
	typ   ast.NodeType
	tab   *c01ExtTab
}

func (s *c01CustomSym) GetStore() boltz.Store      { return s.store }
func (s *c01CustomSym) GetLinkedType() boltz.Store { return nil }
func (s *c01CustomSym) GetPath() []string          { return nil }
func (s *c01CustomSym) GetType() ast.NodeType      { return s.typ }
func (s *c01CustomSym) GetName() string            { return s.name }
func (s *c01CustomSym) IsSet() bool                { return false }
func (s *c01CustomSym) Eval(_ *bbolt.Tx, rowId []byte) (boltz.FieldType, []byte) {
	v := s.tab.at(string(rowId))
	return v.ft, v.b
}

// the SymbolMappers: 0 = boltz.NotNilStringMapper, 1 = strings get the prefix "M", 2 = bools are
// negated, everything else becomes null
type c01PrefixMapper struct{}

func (c01PrefixMapper) Map(_ boltz.EntitySymbol, ft boltz.FieldType, v []byte) (boltz.FieldType, []byte) {
	if ft == boltz.TypeString {
		return ft, append([]byte("M"), v...)
	}
	return ft, v
}

type c01NegMapper struct{}

func (c01NegMapper) Map(_ boltz.EntitySymbol, ft boltz.FieldType, v []byte) (boltz.FieldType, []byte) {
	if ft == boltz.TypeBool && len(v) == 1 {
		return ft, []byte{1 - v[0]}
	}
	return boltz.TypeNil, nil
}

var c01Mappers = []boltz.SymbolMapper{boltz.NotNilStringMapper{}, c01PrefixMapper{}, c01NegMapper{}}

// AddMapSymbol(name, any, key, prefix...)
type c01BMap struct {
	name   string
	key    string
	prefix []string
}

type c01BStore struct {
	name     string
	syms     []c01BSym
	maps     []c01BMap // map symbols (any-typed)
	parent   int       // -1 = a root store
	extended bool
	nearly   int      // own symbols registered before parent.GrantSymbols(child)
	path     []string // BasePath of a child store: where its data lives inside the parent's entity bucket
}

// the symbols a store answers GetSymbol with (own + granted), for the filter generator only; the
// Lean model computes the table itself (`grantSymbols`)
func c01EffSyms(stores []c01BStore, st int) []c01BSym {
	s := stores[st]
	if s.parent < 0 {
		return s.syms
	}
	var out []c01BSym
	seen := map[string]bool{}
	add := func(l []c01BSym) {
		for _, x := range l {
			if !seen[x.name] {
				seen[x.name] = true
				out = append(out, x)
			}
		}
	}
	add(s.syms[s.nearly:])
	add(c01EffSyms(stores, s.parent))
	add(s.syms[:s.nearly])
	return out
}

func c01EffMaps(stores []c01BStore, st int) []string {
	s := stores[st]
	var out []string
	for _, m := range s.maps {
		out = append(out, m.name)
	}
	if s.parent >= 0 {
		for _, m := range stores[s.parent].maps {
			out = append(out, m.key) // inherited under its key; the name is offered too (rejected unless equal)
			if m.name != m.key {
				out = append(out, m.name)
			}
		}
	}
	return out
}

// what a key of a non-set bucket holds: a value, a nested bucket (map) or a list
type c01MNode struct {
	val  *c01Val
	kids map[string]*c01MNode
	list []*c01MNode
	kind byte // 'v' 'b' 'l'
}

func (n *c01MNode) text(b *strings.Builder, fs *[]float64, is *[]int64) {
	switch n.kind {
	case 'v':
		b.WriteString(" v " + n.val.tok)
		c01ValNumbers(*n.val, fs, is)
	case 'b':
		keys := sortedKeys(n.kids)
		fmt.Fprintf(b, " b %d", len(keys))
		for _, k := range keys {
			b.WriteString(" " + k)
			n.kids[k].text(b, fs, is)
		}
	case 'l':
		fmt.Fprintf(b, " l %d", len(n.list))
		for _, e := range n.list {
			e.text(b, fs, is)
		}
	}
}

func c01ParseNode(t *c01Toks) *c01MNode {
	switch t.next() {
	case "v":
		v := c01ParseVal(t.next())
		return &c01MNode{kind: 'v', val: &v}
	case "b":
		n := &c01MNode{kind: 'b', kids: map[string]*c01MNode{}}
		cnt := t.int()
		for i := 0; i < cnt; i++ {
			k := t.next()
			n.kids[k] = c01ParseNode(t)
		}
		return n
	case "l":
		n := &c01MNode{kind: 'l'}
		cnt := t.int()
		for i := 0; i < cnt; i++ {
			n.list = append(n.list, c01ParseNode(t))
		}
		return n
	}
	panic("bad case: node expected")
}

// write a node at `key` of bucket b the way TypedBucket.setMarshaled / PutMap / PutList lay it out
func c01PutNode(b *boltz.TypedBucket, key string, n *c01MNode) {
	switch n.kind {
	case 'v':
		c01PutVal(b, key, *n.val)
	case 'b':
		sb := b.GetOrCreateBucket(key)
		for k, kid := range n.kids {
			c01PutNode(sb, k, kid)
		}
		if sb.Err != nil {
			b.SetError(sb.Err)
		}
	case 'l':
		lb := b.GetOrCreateBucket(key)
		for i, e := range n.list {
			c01PutNode(lb, string(boltz.Int32ToBytes(int32(i))), e)
		}
		lb.SetInt32(boltz.ListSizeKeyName, int32(len(n.list)), nil)
		if lb.Err != nil {
			b.SetError(lb.Err)
		}
	}
}

// the universe: two linked entity types, a plain child store of the first and an extended child
// store of the second
var c01Universe = []c01BStore{
	{name: "things", parent: -1, syms: []c01BSym{
		sy("id", "id", ast.NodeTypeString, -1), sy("name", "field", ast.NodeTypeString, -1), sy("alias", "field", ast.NodeTypeString, -1),
		sy("nbig", "field", ast.NodeTypeInt64, -1), sy("nsmall", "field", ast.NodeTypeInt64, -1), sy("f", "field", ast.NodeTypeFloat64, -1),
		sy("flag", "field", ast.NodeTypeBool, -1), sy("at", "field", ast.NodeTypeDatetime, -1),
		sy("roles", "set", ast.NodeTypeString, -1), sy("owner", "field", ast.NodeTypeString, 1), sy("boss", "field", ast.NodeTypeString, 0),
		sy("groups", "set", ast.NodeTypeString, 1), sy("kidref", "field", ast.NodeTypeString, 2), sy("kids", "set", ast.NodeTypeString, 2),
		sy("nums", "set", ast.NodeTypeInt64, -1), sy("mixed", "set", ast.NodeTypeAnyType, -1),
		// a self-referential link set (employees.directReports -> employees): sub-queries over it scan the entity type
		// that is being scanned
		sy("peers", "set", ast.NodeTypeString, 0),
		{name: "mowner", kind: "mapped", typ: ast.NodeTypeString, linked: 1, key: "mowner", mapper: 0},
		{name: "flagx", kind: "mapped", typ: ast.NodeTypeBool, linked: -1, key: "fx", mapper: 2},
		{name: "xcalc", kind: "ext", typ: ast.NodeTypeAnyType, linked: -1, ext: &c01ExtTab{kind: 'f'}}},
		maps: []c01BMap{{"tags", "tags", nil}, {"meta", "m", []string{"ext", "edge"}}}},
	{name: "owners", parent: -1, syms: []c01BSym{
		sy("id", "id", ast.NodeTypeString, -1), sy("label", "field", ast.NodeTypeString, -1), sy("rank", "field", ast.NodeTypeInt64, -1),
		sy("active", "field", ast.NodeTypeBool, -1), sy("boss", "field", ast.NodeTypeString, 1),
		sy("members", "set", ast.NodeTypeString, 0), sy("roles", "set", ast.NodeTypeString, -1), sy("exts", "set", ast.NodeTypeString, 3),
		sy("subs", "set", ast.NodeTypeString, 1), // self-referential
		{name: "vip", kind: "ext", typ: ast.NodeTypeBool, linked: -1, ext: &c01ExtTab{kind: 'b'}},
		{name: "nick", kind: "ext", typ: ast.NodeTypeString, linked: -1, ext: &c01ExtTab{kind: 's'}},
		{name: "calc", kind: "ext", typ: ast.NodeTypeInt64, linked: -1, ext: &c01ExtTab{kind: 'f'}},
		{name: "mlabel", kind: "mapped", typ: ast.NodeTypeString, linked: -1, key: "mlab", mapper: 1},
		{name: "mrank", kind: "mapped", typ: ast.NodeTypeInt64, linked: -1, key: "mrank", mapper: 0}},
		maps: []c01BMap{{"tags", "tags", []string{"edge"}}, {"attrs", "xattrs", []string{"ext"}}, {"inner", "in", []string{"ext", "xattrs"}}}},
	// `name` is registered before GrantSymbols (the parent's `name` replaces it), `alias` after (it replaces the parent's)
	{name: "kidthings", parent: 0, path: []string{"kid"}, nearly: 1, syms: []c01BSym{
		sy("name", "field", ast.NodeTypeString, -1), sy("alias", "field", ast.NodeTypeString, -1), sy("level", "field", ast.NodeTypeInt64, -1),
		sy("nick", "field", ast.NodeTypeString, -1), sy("pals", "set", ast.NodeTypeString, 2), sy("marks", "set", ast.NodeTypeString, -1),
		sy("chief", "field", ast.NodeTypeString, 3)},
		maps: []c01BMap{{"ktags", "ktags", nil}}},
	{name: "extowners", parent: 1, extended: true, path: []string{"x", "data"}, syms: []c01BSym{
		sy("note", "field", ast.NodeTypeString, -1), sy("score", "field", ast.NodeTypeFloat64, -1), sy("fans", "set", ast.NodeTypeString, 2)}},
}

// the element paths the generator asks for below a map symbol: direct elements, nested maps, an element
// that is itself a map / a list, a path through a value, a path through a missing level
var c01MapPaths = []string{"k", "lvl", "on", "site", "site.name", "site.lst", "a", "a.b", "a.b.c", "k.x", "site.name.z", "nope.x", "b-c.d_e"}

// the template the stored trees are drawn from (so that the paths above are hit at every kind of node)
var c01MapTemplate = &c01MNode{kind: 'b', kids: map[string]*c01MNode{
	"k": {kind: 'v'}, "lvl": {kind: 'v'}, "on": {kind: 'v'},
	"site": {kind: 'b', kids: map[string]*c01MNode{"name": {kind: 'v'}, "lst": {kind: 'l'}}},
	"a":    {kind: 'b', kids: map[string]*c01MNode{"b": {kind: 'b', kids: map[string]*c01MNode{"c": {kind: 'v'}}}}},
	"b-c":  {kind: 'b', kids: map[string]*c01MNode{"d_e": {kind: 'v'}}},
}}

func c01GenLeaf(r *rng) *c01MNode {
	v := c01UTC(c01RandVal(r, ast.NodeTypeAnyType))
	return &c01MNode{kind: 'v', val: &v}
}

// a stored tree drawn from the template: a node is absent (1/3), of another kind than the template
// says (1/8: a value where a map is expected, a map or a list where a value is expected), or as the
// template says
func c01GenTree(r *rng, tpl *c01MNode, top bool) *c01MNode {
	if !top && r.chance(1, 8) {
		switch tpl.kind {
		case 'v':
			if r.chance(1, 2) {
				return &c01MNode{kind: 'b', kids: map[string]*c01MNode{"x": c01GenLeaf(r)}}
			}
			return &c01MNode{kind: 'l', list: []*c01MNode{c01GenLeaf(r)}}
		default:
			return c01GenLeaf(r)
		}
	}
	switch tpl.kind {
	case 'v':
		return c01GenLeaf(r)
	case 'l':
		n := &c01MNode{kind: 'l'}
		for i := r.intn(3); i > 0; i-- {
			if r.chance(1, 4) {
				n.list = append(n.list, &c01MNode{kind: 'b', kids: map[string]*c01MNode{"x": c01GenLeaf(r)}})
			} else {
				n.list = append(n.list, c01GenLeaf(r))
			}
		}
		return n
	}
	n := &c01MNode{kind: 'b', kids: map[string]*c01MNode{}}
	for _, k := range sortedKeys(tpl.kids) {
		if r.chance(2, 3) {
			n.kids[k] = c01GenTree(r, tpl.kids[k], false)
		}
	}
	return n
}

// place node at path below the entity bucket, creating the prefix buckets (shared between map symbols)
func c01PlaceNode(forest map[string]*c01MNode, path []string, node *c01MNode) {
	cur := forest
	for i, p := range path {
		if i == len(path)-1 {
			cur[p] = node
			return
		}
		next, ok := cur[p]
		if !ok || next.kind != 'b' {
			next = &c01MNode{kind: 'b', kids: map[string]*c01MNode{}}
			cur[p] = next
		}
		cur = next.kids
	}
}

type c01Entity struct {
	id     string
	fields map[string]c01Val // explicit values (nil = SetNil); an absent key is simply not written
	sets   map[string][]c01Val
	maps   map[string]*c01MNode // the non-set sub-buckets of the entity bucket, as a forest
}

type c01Dataset struct {
	stores []c01BStore
	rows   [][]*c01Entity
}

// candidate symbols of a store for the filter generator, by following links up to `depth` segments
var c01CandCache = map[string]*c01Schema{}

func c01Candidates(stores []c01BStore, st int, depth int) *c01Schema {
	ck := fmt.Sprintf("%p/%d/%d", &stores[0], st, depth)
	if sc, ok := c01CandCache[ck]; ok {
		return sc
	}
	sc := &c01Schema{subs: map[string]*c01Schema{}}
	c01CandCache[ck] = sc
	type cand struct {
		name   string
		typ    ast.NodeType
		isSet  bool
		linked int
	}
	memo := map[[2]int][]cand{}
	var rec func(st, depth int) []cand
	rec = func(st, depth int) (out []cand) {
		if m, ok := memo[[2]int{st, depth}]; ok {
			return m
		}
		defer func() { memo[[2]int{st, depth}] = out }()
		for _, s := range c01EffSyms(stores, st) {
			out = append(out, cand{s.name, s.typ, s.kind == "set", s.linked})
			if s.linked >= 0 && depth > 1 && s.kind != "id" {
				for _, c := range rec(s.linked, depth-1) {
					out = append(out, cand{s.name + "." + c.name, c.typ, s.kind == "set" || c.isSet, c.linked})
				}
			}
		}
		for _, m := range c01EffMaps(stores, st) {
			for _, k := range c01MapPaths {
				if strings.Count(k, ".")+1 < depth || depth >= 3 {
					out = append(out, cand{m + "." + k, ast.NodeTypeAnyType, false, -1})
				}
			}
		}
		return out
	}
	for _, c := range rec(st, depth) {
		s := &c01Sym{name: c.name, typ: c.typ, isSet: c.isSet}
		if c.isSet {
			sc.sets = append(sc.sets, s)
			// sub-query schemas: the linked store's symbols, one segment shorter
			if c.linked >= 0 && depth > 1 {
				sc.subs[c.name] = c01Candidates(stores, c.linked, depth-1)
			}
		} else {
			sc.scalars = append(sc.scalars, s)
		}
	}
	return sc
}

func c01RandTyped(r *rng, typ ast.NodeType) c01Val {
	switch typ {
	case ast.NodeTypeBool:
		return c01Bool(r.chance(1, 2))
	case ast.NodeTypeDatetime:
		return c01TimeVal(c01TimeOf(pick(r, c01Times)))
	case ast.NodeTypeFloat64:
		return c01Float(pick(r, c01Floats))
	case ast.NodeTypeInt64:
		return c01Int64(pick(r, c01Ints))
	}
	return c01Str(pick(r, c01Strs))
}

// TypedBucket.SetTime stores value.UTC(): stored times always render in UTC
func c01UTC(v c01Val) c01Val {
	if v.ft != boltz.TypeTime {
		return v
	}
	t := &time.Time{}
	if err := t.UnmarshalBinary(v.b); err != nil {
		panic(err)
	}
	return c01TimeVal(t.UTC())
}

func c01GenDataset(r *rng) *c01Dataset {
	// the schema is the universe; the tables of the external symbols belong to the dataset
	ds := &c01Dataset{}
	for _, s := range c01Universe {
		c := s
		c.syms = append([]c01BSym{}, s.syms...)
		ds.stores = append(ds.stores, c)
	}
	ids := [][]string{{"a1", "a2", "a3", "a4", "a5", "a6"}, {"b1", "b2", "b3", "b4"}}
	var present [][]string // the rows of each store (for a child store: the parent entities with child data)
	var pool [][]string    // what links into the store are drawn from (for a child store: every parent entity)
	for st, store := range ds.stores {
		if store.parent >= 0 {
			var have []string
			for _, id := range present[store.parent] {
				if r.chance(1, 2) {
					have = append(have, id)
				}
			}
			present = append(present, have)
			pool = append(pool, present[store.parent])
			continue
		}
		n := r.intn(len(ids[st]) + 1)
		if r.chance(3, 4) && n < 2 {
			n = 2 + r.intn(len(ids[st])-1)
		}
		present = append(present, ids[st][:n])
		pool = append(pool, ids[st][:n])
	}
	// the functions behind the external symbols, as tables over the ids in use (plus "" and a dangling id)
	for st := range ds.stores {
		for i, s := range ds.stores[st].syms {
			if s.kind != "ext" {
				continue
			}
			tab := &c01ExtTab{kind: s.ext.kind, entries: map[string]c01Val{}}
			val := func() c01Val {
				switch tab.kind {
				case 'b':
					return c01Bool(r.chance(1, 2))
				case 's':
					if r.chance(1, 6) {
						return c01Nil() // the function returns a nil *string
					}
					return c01Str(pick(r, c01Strs))
				}
				return c01UTC(c01RandVal(r, s.typ))
			}
			for _, id := range append(append([]string{}, pool[st]...), "", "zz") {
				if r.chance(3, 4) {
					tab.entries[id] = val()
				}
			}
			tab.dflt = val()
			ds.stores[st].syms[i].ext = tab
		}
	}
	for st, store := range ds.stores {
		var rows []*c01Entity
		for _, id := range present[st] {
			e := &c01Entity{id: id, fields: map[string]c01Val{}, sets: map[string][]c01Val{}, maps: map[string]*c01MNode{}}
			for _, s := range store.syms {
				switch s.kind {
				case "field", "mapped":
					key := s.name
					if s.kind == "mapped" {
						key = s.key // a mapped symbol wraps the entitySymbol that reads this key
					}
					if r.chance(1, 4) {
						if r.chance(1, 2) {
							e.fields[key] = c01Nil() // explicit nil; otherwise the key is absent
						}
						continue
					}
					if s.linked >= 0 {
						tgt := pool[s.linked]
						if len(tgt) == 0 || r.chance(1, 20) {
							e.fields[key] = c01Str("zz") // dangling reference
						} else {
							e.fields[key] = c01Str(pick(r, tgt))
						}
					} else if s.name == "nsmall" {
						e.fields[key] = c01Int32(pick(r, c01Int32s))
					} else {
						e.fields[key] = c01UTC(c01RandTyped(r, s.typ))
					}
				case "set":
					var vals []c01Val
					if s.linked >= 0 {
						for _, t := range pool[s.linked] {
							if r.chance(1, 2) {
								vals = append(vals, c01Str(t))
							}
						}
					} else {
						// a bucket of typed keys: strings for a string set, ints for an int set, anything for an any-typed one
						n := r.intn(4)
						for i := 0; i < n; i++ {
							switch s.typ {
							case ast.NodeTypeString:
								vals = append(vals, c01Str(pick(r, c01Strs)))
							case ast.NodeTypeAnyType:
								v := c01UTC(c01RandVal(r, s.typ))
								if v.ft == boltz.TypeNil {
									v = c01Str(pick(r, c01Strs))
								}
								vals = append(vals, v)
							default:
								vals = append(vals, c01UTC(c01RandTyped(r, s.typ)))
							}
						}
					}
					if len(vals) > 0 || r.chance(1, 2) {
						e.sets[s.name] = c01SortSet(vals) // an empty set is an empty bucket or no bucket
					}
				}
			}
			for _, m := range store.maps {
				path := append(append([]string{}, m.prefix...), m.key)
				switch {
				case r.chance(3, 4):
					c01PlaceNode(e.maps, path, c01GenTree(r, c01MapTemplate, true))
				case r.chance(1, 3):
					// only a part of the prefix exists
					c01PlaceNode(e.maps, path[:1+r.intn(len(path))], &c01MNode{kind: 'b', kids: map[string]*c01MNode{}})
				case r.chance(1, 3):
					// a value where the map bucket (or one of its prefix buckets) should be
					c01PlaceNode(e.maps, path[:1+r.intn(len(path))], c01GenLeaf(r))
				}
			}
			rows = append(rows, e)
		}
		ds.rows = append(ds.rows, rows)
	}
	return ds
}

func (ds *c01Dataset) text(fs *[]float64, is *[]int64) string {
	var b strings.Builder
	fmt.Fprintf(&b, "%d", len(ds.stores))
	for st, store := range ds.stores {
		fmt.Fprintf(&b, " %d", len(store.syms))
		for _, s := range store.syms {
			l := "-"
			if s.linked >= 0 {
				l = strconv.Itoa(s.linked)
			}
			fmt.Fprintf(&b, " %s %s %s %s", s.name, s.kind, c01TypeTok[s.typ], l)
			switch s.kind {
			case "ext":
				ids := sortedKeys(s.ext.entries)
				fmt.Fprintf(&b, " %c %d", s.ext.kind, len(ids))
				for _, id := range ids {
					fmt.Fprintf(&b, " %s %s", toWire(id), s.ext.entries[id].tok)
					c01ValNumbers(s.ext.entries[id], fs, is)
				}
				b.WriteString(" " + s.ext.dflt.tok)
				c01ValNumbers(s.ext.dflt, fs, is)
			case "mapped":
				fmt.Fprintf(&b, " %s %d", s.key, s.mapper)
			}
		}
		fmt.Fprintf(&b, " %d", len(store.maps))
		for _, m := range store.maps {
			fmt.Fprintf(&b, " %s a %s %d", m.name, m.key, len(m.prefix))
			for _, p := range m.prefix {
				b.WriteString(" " + p)
			}
		}
		par := "-"
		if store.parent >= 0 {
			par = strconv.Itoa(store.parent)
		}
		fmt.Fprintf(&b, " %s %d %d %d", par, b2i(store.extended), store.nearly, len(store.path))
		for _, p := range store.path {
			b.WriteString(" " + p)
		}
		fmt.Fprintf(&b, " %d", len(ds.rows[st]))
		for _, e := range ds.rows[st] {
			fmt.Fprintf(&b, " %s", toWire(e.id))
			keys := sortedKeys(e.fields)
			fmt.Fprintf(&b, " %d", len(keys))
			for _, k := range keys {
				fmt.Fprintf(&b, " %s %s", k, e.fields[k].tok)
				c01ValNumbers(e.fields[k], fs, is)
			}
			skeys := sortedKeys(e.sets)
			fmt.Fprintf(&b, " %d", len(skeys))
			for _, k := range skeys {
				fmt.Fprintf(&b, " %s L%d", k, len(e.sets[k]))
				for _, v := range e.sets[k] {
					b.WriteString(" " + v.tok)
					c01ValNumbers(v, fs, is)
				}
			}
			mkeys := sortedKeys(e.maps)
			fmt.Fprintf(&b, " %d", len(mkeys))
			for _, mk := range mkeys {
				b.WriteString(" " + mk)
				e.maps[mk].text(&b, fs, is)
			}
		}
	}
	return b.String()
}

func sortedKeys[V any](m map[string]V) []string {
	keys := make([]string, 0, len(m))
	for k := range m {
		keys = append(keys, k)
	}
	sort.Strings(keys)
	return keys
}

func c01BoltLine(ds *c01Dataset, root int, f *c01Node) string {
	var fs []float64
	var is []int64
	d := ds.text(&fs, &is)
	f.numbers(&fs, &is)
	var toks []string
	f.tokens(&toks)
	return "b " + d + " " + strconv.Itoa(root) + " " + c01FmtTable(fs, is) + " " + strings.Join(toks, " ") + " @ " + toWire(f.zql())
}

// one simple, well-typed atom per operand shape for every symbol reachable from a store (dotted
// names up to three segments, map elements, sub-queries with and without skip / limit)
func c01GenBoltAtoms(r *rng, ds *c01Dataset, schemas []*c01Schema, out *bufio.Writer) {
	g := &c01Gen_{r: r}
	emit := func(root int, f *c01Node) {
		out.WriteString(c01BoltLine(ds, root, f))
		out.WriteByte('\n')
	}
	cmpFor := func(l *c01Node, typ ast.NodeType, nullable bool) *c01Node {
		op := pick(r, c01AllOps)
		kinds := c01OkLits(typ, op)
		for len(kinds) == 0 {
			op = pick(r, c01CmpOps[:2])
			kinds = c01OkLits(typ, op)
		}
		if nullable && r.chance(1, 6) {
			return &c01Node{kind: "cmp", op: pick(r, c01CmpOps[:2]), l: l, lit: c01Lit{kind: 'n'}}
		}
		return &c01Node{kind: "cmp", op: op, l: l, lit: c01RandLit(r, pick(r, kinds))}
	}
	// every symbol of up to two segments, a sample of the longer ones
	sample := func(syms []*c01Sym, n int) []*c01Sym {
		var out, long []*c01Sym
		for _, s := range syms {
			if strings.Count(s.name, ".") <= 1 {
				out = append(out, s)
			} else {
				long = append(long, s)
			}
		}
		for i := 0; i < n && len(long) > 0; i++ {
			out = append(out, pick(r, long))
		}
		return out
	}
	for root, sc := range schemas {
		for _, s := range sample(sc.scalars, 60) {
			emit(root, cmpFor(&c01Node{kind: "sym", name: s.name}, s.typ, true))
		}
		for _, s := range sample(sc.sets, 30) {
			emit(root, cmpFor(&c01Node{kind: "fn", fn: "anyOf", name: s.name}, s.typ, true))
			emit(root, cmpFor(&c01Node{kind: "fn", fn: "allOf", name: s.name}, s.typ, true))
			emit(root, &c01Node{kind: "cmp", op: pick(r, c01CmpOps), l: &c01Node{kind: "fn", fn: "count", name: s.name},
				lit: c01Lit{kind: 'i', i: int64(r.intn(4))}})
			emit(root, &c01Node{kind: "fn", fn: "isEmpty", name: s.name})
			if sub := sc.subs[s.name]; sub != nil {
				inner := g.atom(sub, 0)
				emit(root, &c01Node{kind: "cmp", op: pick(r, c01CmpOps), l: &c01Node{kind: "sub", fn: "count", name: s.name, q: inner},
					lit: c01Lit{kind: 'i', i: int64(r.intn(3))}})
				sq := g.subQuery("count", s.name, sub, 0)
				emit(root, &c01Node{kind: "cmp", op: pick(r, c01CmpOps), l: sq, lit: c01Lit{kind: 'i', i: int64(r.intn(3))}})
				emit(root, g.subQuery("isEmpty", s.name, sub, 0))
			}
		}
	}
}

func c01GenBolt(tier string, r *rng, n int, depth int, out *bufio.Writer) {
	g := &c01Gen_{r: r, illRate: 8}
	var schemas, deep []*c01Schema
	for st := range c01Universe {
		schemas = append(schemas, c01Candidates(c01Universe, st, 3))
		// one case in six draws its symbols from dotted names of up to four segments
		deep = append(deep, c01Candidates(c01Universe, st, 4))
	}
	nAtomSets := 1
	if tier == "thorough" {
		nAtomSets = 12
	}
	for i := 0; i < nAtomSets; i++ {
		c01GenBoltAtoms(r, c01GenDataset(r), schemas, out)
	}
	var ds *c01Dataset
	for i := 0; i < n; i++ {
		if i%8 == 0 {
			ds = c01GenDataset(r)
		}
		root := pick(r, []int{0, 0, 0, 1, 1, 2, 2, 3})
		d := 1 + r.intn(depth)
		if i%3 == 0 {
			d = 0
		}
		sc := schemas[root]
		if i%6 == 5 {
			sc = deep[root]
		}
		f := g.filter(sc, d)
		if d == 0 {
			f = g.atom(sc, 1) // single atoms may still own a sub-query
		}
		out.WriteString(c01BoltLine(ds, root, f))
		out.WriteByte('\n')
	}
}

// enumerated single atoms: operator x left type x literal type x left-operand shape (m cases over
// one fixed boundary dataset per seed)
func c01GenAtoms(tier string, r *rng, out *bufio.Writer) {
	var rows []*c01Row
	for j := 0; j < 8; j++ {
		rows = append(rows, c01MemRow(r))
	}
	lits := func(kind byte) []c01Lit {
		n := 1
		if tier == "thorough" {
			n = 3
		}
		var out []c01Lit
		for i := 0; i < n; i++ {
			out = append(out, c01RandLit(r, kind))
		}
		return out
	}
	emit := func(f *c01Node) {
		out.WriteString(c01MemLine(c01MemSyms, rows, f))
		out.WriteByte('\n')
	}
	for _, s := range c01MemSyms {
		var lhss []*c01Node
		if s.isSet {
			lhss = []*c01Node{{kind: "fn", fn: "anyOf", name: s.name}, {kind: "fn", fn: "allOf", name: s.name}, {kind: "fn", fn: "count", name: s.name}}
		} else {
			lhss = []*c01Node{{kind: "sym", name: s.name}}
		}
		for _, l := range lhss {
			for _, op := range c01AllOps {
				for _, k := range c01GrammarLits(op) {
					for _, lit := range lits(k) {
						emit(&c01Node{kind: "cmp", op: op, l: l, lit: lit})
					}
				}
			}
			for _, ak := range []byte{'s', 'n', 'N', 't'} {
				n := &c01Node{kind: "in", l: l, arrK: ak}
				switch ak {
				case 's':
					n.arr = []c01Lit{c01RandLit(r, 's'), c01RandLit(r, 's')}
				case 'n':
					n.arr = []c01Lit{c01RandLit(r, 'i'), c01RandLit(r, 'i')}
				case 'N':
					n.arrK = 'n'
					n.arr = []c01Lit{c01RandLit(r, 'i'), c01RandLit(r, 'f')}
				case 't':
					n.arr = []c01Lit{c01RandLit(r, 't'), c01RandLit(r, 't')}
				}
				emit(n)
				emit(&c01Node{kind: "notE", l: n})
			}
			for _, bk := range [][2]byte{{'i', 'i'}, {'i', 'f'}, {'f', 'f'}, {'t', 't'}} {
				n := &c01Node{kind: "bet", l: l, lo: c01RandLit(r, bk[0]), hi: c01RandLit(r, bk[1])}
				emit(n)
				emit(&c01Node{kind: "notE", l: n})
			}
		}
		if s.isSet {
			emit(&c01Node{kind: "fn", fn: "isEmpty", name: s.name})
		} else {
			emit(&c01Node{kind: "sym", name: s.name})
		}
	}
}

// ------------------------------------------------------------------------------------------ exec

type c01OpenDb struct {
	key    string
	dir    string
	db     *bbolt.DB
	stores []boltz.ConfigurableStore
}

var c01DbCache *c01OpenDb

func (o *c01OpenDb) close() {
	if o == nil {
		return
	}
	_ = o.db.Close()
	_ = os.RemoveAll(o.dir)
}

func c01PutVal(b *boltz.TypedBucket, key string, v c01Val) {
	switch v.ft {
	case boltz.TypeNil:
		b.SetNil(key)
	case boltz.TypeBool:
		b.SetBool(key, v.b[0] == 1, nil)
	case boltz.TypeInt32:
		b.SetInt32(key, *boltz.BytesToInt32(v.b), nil)
	case boltz.TypeInt64:
		b.SetInt64(key, *boltz.BytesToInt64(v.b), nil)
	case boltz.TypeFloat64:
		b.SetFloat64(key, *boltz.BytesToFloat64(v.b), nil)
	case boltz.TypeString:
		b.SetString(key, string(v.b), nil)
	case boltz.TypeTime:
		t := &time.Time{}
		if err := t.UnmarshalBinary(v.b); err != nil {
			panic(err)
		}
		b.SetTimeP(key, t, nil)
	}
}

func c01ParseDataset(t *c01Toks) *c01Dataset {
	ds := &c01Dataset{}
	ns := t.int()
	for st := 0; st < ns; st++ {
		store := c01BStore{name: fmt.Sprintf("s%d", st)}
		k := t.int()
		for i := 0; i < k; i++ {
			s := c01BSym{name: t.next(), kind: t.next()}
			s.typ = c01TokType[t.next()]
			l := t.next()
			s.linked = -1
			if l != "-" {
				s.linked, _ = strconv.Atoi(l)
			}
			switch s.kind {
			case "ext":
				s.ext = &c01ExtTab{kind: t.next()[0], entries: map[string]c01Val{}}
				for n := t.int(); n > 0; n-- {
					id := fromWire(t.next())
					s.ext.entries[id] = c01ParseVal(t.next())
				}
				s.ext.dflt = c01ParseVal(t.next())
			case "mapped":
				s.key = t.next()
				s.mapper = t.int()
			}
			store.syms = append(store.syms, s)
		}
		nm := t.int()
		for i := 0; i < nm; i++ {
			m := c01BMap{name: t.next()}
			t.next()
			m.key = t.next()
			for np := t.int(); np > 0; np-- {
				m.prefix = append(m.prefix, t.next())
			}
			store.maps = append(store.maps, m)
		}
		store.parent = -1
		if par := t.next(); par != "-" {
			store.parent, _ = strconv.Atoi(par)
		}
		store.extended = t.next() == "1"
		store.nearly = t.int()
		for np := t.int(); np > 0; np-- {
			store.path = append(store.path, t.next())
		}
		nr := t.int()
		var rows []*c01Entity
		for i := 0; i < nr; i++ {
			e := &c01Entity{id: fromWire(t.next()), fields: map[string]c01Val{}, sets: map[string][]c01Val{}, maps: map[string]*c01MNode{}}
			nf := t.int()
			for j := 0; j < nf; j++ {
				key := t.next()
				e.fields[key] = c01ParseVal(t.next())
			}
			nset := t.int()
			for j := 0; j < nset; j++ {
				key := t.next()
				e.sets[key] = c01ParseSet(t)
			}
			nmap := t.int()
			for j := 0; j < nmap; j++ {
				mk := t.next()
				e.maps[mk] = c01ParseNode(t)
			}
			rows = append(rows, e)
		}
		ds.stores = append(ds.stores, store)
		ds.rows = append(ds.rows, rows)
	}
	return ds
}

func c01OpenDataset(key string, ds *c01Dataset) *c01OpenDb {
	if c01DbCache != nil && c01DbCache.key == key {
		return c01DbCache
	}
	c01DbCache.close()
	c01DbCache = nil
	dir, err := os.MkdirTemp("", "verif-*")
	if err != nil {
		panic(err)
	}
	db, err := bbolt.Open(dir+"/c01.db", 0600, &bbolt.Options{NoSync: true, NoFreelistSync: true, Timeout: time.Second})
	if err != nil {
		panic(err)
	}
	// nothing stays on disk: the open file remains usable after its directory entry is gone
	_ = os.RemoveAll(dir)
	o := &c01OpenDb{key: key, dir: dir, db: db}
	for _, s := range ds.stores {
		// a child store: Parent + BasePath (where its data lives inside the parent's entity bucket)
		if s.parent >= 0 {
			def := &boltz.StoreDefinition[boltz.Entity]{EntityType: s.name, Parent: o.stores[s.parent], BasePath: s.path}
			child := boltz.NewBaseStore(*def)
			if s.extended {
				child.Extended()
			}
			o.stores = append(o.stores, child)
			continue
		}
		def := (&boltz.StoreDefinition[boltz.Entity]{EntityType: s.name}).WithBasePath("u")
		o.stores = append(o.stores, boltz.NewBaseStore(*def))
	}
	for st, s := range ds.stores {
		store := o.stores[st]
		for i, sym := range s.syms {
			if s.parent >= 0 && i == s.nearly {
				o.stores[s.parent].GrantSymbols(store)
			}
			switch {
			case sym.kind == "id":
				store.AddIdSymbol(sym.name, sym.typ)
			case sym.kind == "field" && sym.linked >= 0:
				store.AddFkSymbol(sym.name, o.stores[sym.linked])
			case sym.kind == "field":
				store.AddSymbol(sym.name, sym.typ)
			case sym.kind == "set" && sym.linked >= 0:
				store.AddFkSetSymbol(sym.name, o.stores[sym.linked])
			case sym.kind == "set":
				store.AddSetSymbol(sym.name, sym.typ)
			case sym.kind == "mapped":
				if sym.linked >= 0 {
					store.AddFkSymbolWithKey(sym.name, sym.key, o.stores[sym.linked])
				} else {
					store.AddSymbolWithKey(sym.name, sym.typ, sym.key)
				}
				store.MapSymbol(sym.name, c01Mappers[sym.mapper])
			case sym.kind == "ext":
				tab := sym.ext
				switch tab.kind {
				case 'b':
					store.AddEntitySymbol(boltz.NewBoolFuncSymbol(store, sym.name, func(id string) bool {
						v := tab.at(id)
						return v.ft == boltz.TypeBool && v.b[0] == 1
					}))
				case 's':
					store.AddEntitySymbol(boltz.NewStringFuncSymbol(store, sym.name, func(id string) *string {
						v := tab.at(id)
						if v.ft != boltz.TypeString {
							return nil
						}
						s := string(v.b)
						return &s
					}))
				default:
					store.AddEntitySymbol(&c01CustomSym{store: store, name: sym.name, typ: sym.typ, tab: tab})
				}
			}
		}
		if s.parent >= 0 && s.nearly >= len(s.syms) {
			o.stores[s.parent].GrantSymbols(store)
		}
		for _, m := range s.maps {
			store.AddMapSymbol(m.name, ast.NodeTypeAnyType, m.key, m.prefix...)
		}
	}
	err = db.Update(func(tx *bbolt.Tx) error {
		for st, s := range ds.stores {
			root := s
			for root.parent >= 0 {
				root = ds.stores[root.parent]
			}
			base := boltz.GetOrCreatePath(tx, "u", root.name)
			for _, e := range ds.rows[st] {
				b := base.GetOrCreatePath(e.id)
				if s.parent >= 0 {
					b = b.GetOrCreatePath(s.path...)
				}
				for k, v := range e.fields {
					c01PutVal(b, k, v)
				}
				for k, vals := range e.sets {
					sb := b.GetOrCreateBucket(k)
					for _, v := range vals {
						sb.SetListEntry(v.ft, v.b)
					}
					if sb.Err != nil {
						return sb.Err
					}
				}
				for mk, node := range e.maps {
					c01PutNode(b, mk, node)
				}
				if b.Err != nil {
					return b.Err
				}
			}
		}
		return nil
	})
	if err != nil {
		panic(err)
	}
	c01DbCache = o
	return o
}

func c01Ids(ids []string) string {
	if len(ids) == 0 {
		return "-"
	}
	parts := make([]string, len(ids))
	for i, id := range ids {
		parts[i] = toWire(id)
	}
	return strings.Join(parts, ",")
}

func c01ExecBolt(t *c01Toks) string {
	start := t.p
	ds := c01ParseDataset(t)
	key := strings.Join(t.t[start:t.p], " ")
	root := t.int()
	text := c01ZqlOf(t)
	o := c01OpenDataset(key, ds)
	store := o.stores[root]
	var res string
	_ = o.db.View(func(tx *bbolt.Tx) (err error) {
		defer func() {
			if r := recover(); r != nil {
				res = fmt.Sprintf("panic %q", fmt.Sprint(r))
			}
		}()
		query, perr := ast.Parse(store, text)
		if perr != nil {
			res = "err"
			return nil
		}
		shape := c01ShapeOf(query)
		ids, count, qerr := store.QueryIdsC(tx, query)
		if qerr != nil {
			res = "err"
			return nil
		}
		first := c01Ids(ids)
		if count != int64(len(ids)) {
			first += "#count=" + strconv.FormatInt(count, 10)
		}
		// the same filter through the cursor interface, from a fresh parse
		query2, _ := ast.Parse(store, text)
		var viaCursor []string
		for c := store.IterateIds(tx, query2); c.IsValid(); c.Next() {
			viaCursor = append(viaCursor, string(c.Current()))
		}
		res = "ok " + shape + " " + first + " " + c01Ids(viaCursor)
		return nil
	})
	return res
}
