package main

import (
	"bufio"
	"fmt"
	"os"
	"sort"
	"strconv"
	"strings"
	"time"

	"github.com/openziti/storage/ast"
	"github.com/openziti/storage/boltz"
	"go.etcd.io/bbolt"
)

// b cases: Store.QueryIds / IterateIds over real bbolt stores.
//
//	b <nstores> {<store>}* <root store> <nfmt> {<bits> <hex>}* <filter> @ <zitiql-hex>
//	  store = <nsyms> {<name> id|field|set <type> <linked store|->}* <nmaps> {<name> <type>}* <nrows> {<row>}*
//	  row   = <id-hex> <nfields> {<key> <value>}* <nsets> {<key> L<k> <value>*k}* <nmaps> {<mapkey> <n> {<key> <value>}*}*
//
// Output: ok <shape> <ids of QueryIds> <ids collected from IterateIds>   (ids hex, comma separated, - = none)
//       | err

type c01BSym struct {
	name   string
	kind   string // id field set
	typ    ast.NodeType
	linked int // -1 = none
}

type c01BStore struct {
	name string
	syms []c01BSym
	maps []string // map symbols (any-typed), key = name
}

// the universe: two linked entity types
var c01Universe = []c01BStore{
	{name: "things", syms: []c01BSym{
		{"id", "id", ast.NodeTypeString, -1}, {"name", "field", ast.NodeTypeString, -1}, {"alias", "field", ast.NodeTypeString, -1},
		{"nbig", "field", ast.NodeTypeInt64, -1}, {"nsmall", "field", ast.NodeTypeInt64, -1}, {"f", "field", ast.NodeTypeFloat64, -1},
		{"flag", "field", ast.NodeTypeBool, -1}, {"at", "field", ast.NodeTypeDatetime, -1},
		{"roles", "set", ast.NodeTypeString, -1}, {"owner", "field", ast.NodeTypeString, 1}, {"boss", "field", ast.NodeTypeString, 0},
		{"groups", "set", ast.NodeTypeString, 1}}, maps: []string{"tags"}},
	{name: "owners", syms: []c01BSym{
		{"id", "id", ast.NodeTypeString, -1}, {"label", "field", ast.NodeTypeString, -1}, {"rank", "field", ast.NodeTypeInt64, -1},
		{"active", "field", ast.NodeTypeBool, -1}, {"boss", "field", ast.NodeTypeString, 1},
		{"members", "set", ast.NodeTypeString, 0}, {"roles", "set", ast.NodeTypeString, -1}}, maps: []string{"tags"}},
}

var c01TagKeys = []string{"k", "lvl", "on"}

type c01Entity struct {
	id     string
	fields map[string]c01Val // explicit values (nil = SetNil); an absent key is simply not written
	sets   map[string][]c01Val
	maps   map[string]map[string]c01Val
}

type c01Dataset struct {
	stores []c01BStore
	rows   [][]*c01Entity
}

// candidate symbols of a store for the filter generator, by following links up to `depth` segments
func c01Candidates(stores []c01BStore, st int, depth int) *c01Schema {
	sc := &c01Schema{subs: map[string]*c01Schema{}}
	type cand struct {
		name   string
		typ    ast.NodeType
		isSet  bool
		linked int
	}
	var rec func(st, depth int) []cand
	rec = func(st, depth int) []cand {
		var out []cand
		for _, s := range stores[st].syms {
			out = append(out, cand{s.name, s.typ, s.kind == "set", s.linked})
			if s.linked >= 0 && depth > 1 && s.kind != "id" {
				for _, c := range rec(s.linked, depth-1) {
					out = append(out, cand{s.name + "." + c.name, c.typ, s.kind == "set" || c.isSet, c.linked})
				}
			}
		}
		for _, m := range stores[st].maps {
			for _, k := range c01TagKeys {
				out = append(out, cand{m + "." + k, ast.NodeTypeAnyType, false, -1})
			}
		}
		return out
	}
	for _, c := range rec(st, depth) {
		s := &c01Sym{name: c.name, typ: c.typ, isSet: c.isSet}
		if c.isSet {
			sc.sets = append(sc.sets, s)
			if c.linked >= 0 {
				sc.subs[c.name] = nil // filled lazily below (needs the linked store's schema)
			}
		} else {
			sc.scalars = append(sc.scalars, s)
		}
	}
	// sub-query schemas: one level of linked symbols (no further sub-queries below depth 2)
	for name := range sc.subs {
		linked := -1
		for _, c := range rec(st, depth) {
			if c.name == name {
				linked = c.linked
			}
		}
		if depth > 1 {
			sc.subs[name] = c01Candidates(stores, linked, depth-1)
		} else {
			delete(sc.subs, name)
		}
	}
	return sc
}

func c01RandTyped(r *rng, typ ast.NodeType) c01Val {
	switch typ {
	case ast.NodeTypeBool:
		return c01Bool(r.chance(1, 2))
	case ast.NodeTypeDatetime:
		return c01TimeVal(c01TimeOf(pick(r, c01Times)))
	case ast.NodeTypeFloat64:
		return c01Float(pick(r, c01Floats))
	case ast.NodeTypeInt64:
		return c01Int64(pick(r, c01Ints))
	}
	return c01Str(pick(r, c01Strs))
}

// TypedBucket.SetTime stores value.UTC(): stored times always render in UTC
func c01UTC(v c01Val) c01Val {
	if v.ft != boltz.TypeTime {
		return v
	}
	t := &time.Time{}
	if err := t.UnmarshalBinary(v.b); err != nil {
		panic(err)
	}
	return c01TimeVal(t.UTC())
}

func c01GenDataset(r *rng) *c01Dataset {
	ds := &c01Dataset{stores: c01Universe}
	ids := [][]string{{"a1", "a2", "a3", "a4", "a5", "a6"}, {"b1", "b2", "b3", "b4"}}
	var present [][]string
	for st := range ds.stores {
		n := r.intn(len(ids[st]) + 1)
		if r.chance(3, 4) && n < 2 {
			n = 2 + r.intn(len(ids[st])-1)
		}
		present = append(present, ids[st][:n])
	}
	for st, store := range ds.stores {
		var rows []*c01Entity
		for _, id := range present[st] {
			e := &c01Entity{id: id, fields: map[string]c01Val{}, sets: map[string][]c01Val{}, maps: map[string]map[string]c01Val{}}
			for _, s := range store.syms {
				switch s.kind {
				case "field":
					if r.chance(1, 4) {
						if r.chance(1, 2) {
							e.fields[s.name] = c01Nil() // explicit nil; otherwise the key is absent
						}
						continue
					}
					if s.linked >= 0 {
						tgt := present[s.linked]
						if len(tgt) == 0 || r.chance(1, 20) {
							e.fields[s.name] = c01Str("zz") // dangling reference
						} else {
							e.fields[s.name] = c01Str(pick(r, tgt))
						}
					} else if s.name == "nsmall" {
						e.fields[s.name] = c01Int32(pick(r, c01Int32s))
					} else {
						e.fields[s.name] = c01UTC(c01RandTyped(r, s.typ))
					}
				case "set":
					var vals []c01Val
					if s.linked >= 0 {
						for _, t := range present[s.linked] {
							if r.chance(1, 2) {
								vals = append(vals, c01Str(t))
							}
						}
					} else {
						n := r.intn(4)
						for i := 0; i < n; i++ {
							vals = append(vals, c01Str(pick(r, c01Strs)))
						}
					}
					if len(vals) > 0 || r.chance(1, 2) {
						e.sets[s.name] = c01SortSet(vals) // an empty set is an empty bucket or no bucket
					}
				}
			}
			for _, m := range store.maps {
				if r.chance(3, 4) {
					mv := map[string]c01Val{}
					for _, k := range c01TagKeys {
						if r.chance(1, 2) {
							mv[k] = c01UTC(c01RandVal(r, ast.NodeTypeAnyType))
						}
					}
					e.maps[m] = mv
				}
			}
			rows = append(rows, e)
		}
		ds.rows = append(ds.rows, rows)
	}
	return ds
}

func (ds *c01Dataset) text(fs *[]float64, is *[]int64) string {
	var b strings.Builder
	fmt.Fprintf(&b, "%d", len(ds.stores))
	for st, store := range ds.stores {
		fmt.Fprintf(&b, " %d", len(store.syms))
		for _, s := range store.syms {
			l := "-"
			if s.linked >= 0 {
				l = strconv.Itoa(s.linked)
			}
			fmt.Fprintf(&b, " %s %s %s %s", s.name, s.kind, c01TypeTok[s.typ], l)
		}
		fmt.Fprintf(&b, " %d", len(store.maps))
		for _, m := range store.maps {
			fmt.Fprintf(&b, " %s a", m)
		}
		fmt.Fprintf(&b, " %d", len(ds.rows[st]))
		for _, e := range ds.rows[st] {
			fmt.Fprintf(&b, " %s", toWire(e.id))
			keys := sortedKeys(e.fields)
			fmt.Fprintf(&b, " %d", len(keys))
			for _, k := range keys {
				fmt.Fprintf(&b, " %s %s", k, e.fields[k].tok)
				c01ValNumbers(e.fields[k], fs, is)
			}
			skeys := sortedKeys(e.sets)
			fmt.Fprintf(&b, " %d", len(skeys))
			for _, k := range skeys {
				fmt.Fprintf(&b, " %s L%d", k, len(e.sets[k]))
				for _, v := range e.sets[k] {
					b.WriteString(" " + v.tok)
				}
			}
			mkeys := sortedKeys(e.maps)
			fmt.Fprintf(&b, " %d", len(mkeys))
			for _, mk := range mkeys {
				ks := sortedKeys(e.maps[mk])
				fmt.Fprintf(&b, " %s %d", mk, len(ks))
				for _, k := range ks {
					fmt.Fprintf(&b, " %s %s", k, e.maps[mk][k].tok)
					c01ValNumbers(e.maps[mk][k], fs, is)
				}
			}
		}
	}
	return b.String()
}

func sortedKeys[V any](m map[string]V) []string {
	keys := make([]string, 0, len(m))
	for k := range m {
		keys = append(keys, k)
	}
	sort.Strings(keys)
	return keys
}

func c01BoltLine(ds *c01Dataset, root int, f *c01Node) string {
	var fs []float64
	var is []int64
	d := ds.text(&fs, &is)
	f.numbers(&fs, &is)
	var toks []string
	f.tokens(&toks)
	return "b " + d + " " + strconv.Itoa(root) + " " + c01FmtTable(fs, is) + " " + strings.Join(toks, " ") + " @ " + toWire(f.zql())
}

// one simple, well-typed atom per operand shape for every symbol reachable from a store (dotted
// names up to three segments, map elements, sub-queries with and without skip / limit)
func c01GenBoltAtoms(r *rng, ds *c01Dataset, schemas []*c01Schema, out *bufio.Writer) {
	g := &c01Gen_{r: r}
	emit := func(root int, f *c01Node) {
		out.WriteString(c01BoltLine(ds, root, f))
		out.WriteByte('\n')
	}
	cmpFor := func(l *c01Node, typ ast.NodeType, nullable bool) *c01Node {
		op := pick(r, c01AllOps)
		kinds := c01OkLits(typ, op)
		for len(kinds) == 0 {
			op = pick(r, c01CmpOps[:2])
			kinds = c01OkLits(typ, op)
		}
		if nullable && r.chance(1, 6) {
			return &c01Node{kind: "cmp", op: pick(r, c01CmpOps[:2]), l: l, lit: c01Lit{kind: 'n'}}
		}
		return &c01Node{kind: "cmp", op: op, l: l, lit: c01RandLit(r, pick(r, kinds))}
	}
	for root, sc := range schemas {
		for _, s := range sc.scalars {
			emit(root, cmpFor(&c01Node{kind: "sym", name: s.name}, s.typ, true))
		}
		for _, s := range sc.sets {
			emit(root, cmpFor(&c01Node{kind: "fn", fn: "anyOf", name: s.name}, s.typ, true))
			emit(root, cmpFor(&c01Node{kind: "fn", fn: "allOf", name: s.name}, s.typ, true))
			emit(root, &c01Node{kind: "cmp", op: pick(r, c01CmpOps), l: &c01Node{kind: "fn", fn: "count", name: s.name},
				lit: c01Lit{kind: 'i', i: int64(r.intn(4))}})
			emit(root, &c01Node{kind: "fn", fn: "isEmpty", name: s.name})
			if sub := sc.subs[s.name]; sub != nil {
				inner := g.atom(sub, 0)
				emit(root, &c01Node{kind: "cmp", op: pick(r, c01CmpOps), l: &c01Node{kind: "sub", fn: "count", name: s.name, q: inner},
					lit: c01Lit{kind: 'i', i: int64(r.intn(3))}})
				sq := g.subQuery("count", s.name, sub, 0)
				emit(root, &c01Node{kind: "cmp", op: pick(r, c01CmpOps), l: sq, lit: c01Lit{kind: 'i', i: int64(r.intn(3))}})
				emit(root, g.subQuery("isEmpty", s.name, sub, 0))
			}
		}
	}
}

func c01GenBolt(tier string, r *rng, n int, depth int, out *bufio.Writer) {
	g := &c01Gen_{r: r, illRate: 8}
	schemas := []*c01Schema{c01Candidates(c01Universe, 0, 3), c01Candidates(c01Universe, 1, 3)}
	// one case in six draws its symbols from dotted names of up to four segments
	deep := []*c01Schema{c01Candidates(c01Universe, 0, 4), c01Candidates(c01Universe, 1, 4)}
	nAtomSets := 1
	if tier == "thorough" {
		nAtomSets = 12
	}
	for i := 0; i < nAtomSets; i++ {
		c01GenBoltAtoms(r, c01GenDataset(r), schemas, out)
	}
	var ds *c01Dataset
	for i := 0; i < n; i++ {
		if i%8 == 0 {
			ds = c01GenDataset(r)
		}
		root := 0
		if r.chance(1, 4) {
			root = 1
		}
		d := 1 + r.intn(depth)
		if i%3 == 0 {
			d = 0
		}
		sc := schemas[root]
		if i%6 == 5 {
			sc = deep[root]
		}
		f := g.filter(sc, d)
		if d == 0 {
			f = g.atom(sc, 1) // single atoms may still own a sub-query
		}
		out.WriteString(c01BoltLine(ds, root, f))
		out.WriteByte('\n')
	}
}

// enumerated single atoms: operator x left type x literal type x left-operand shape (m cases over
// one fixed boundary dataset per seed)
func c01GenAtoms(tier string, r *rng, out *bufio.Writer) {
	var rows []*c01Row
	for j := 0; j < 8; j++ {
		rows = append(rows, c01MemRow(r))
	}
	lits := func(kind byte) []c01Lit {
		n := 1
		if tier == "thorough" {
			n = 3
		}
		var out []c01Lit
		for i := 0; i < n; i++ {
			out = append(out, c01RandLit(r, kind))
		}
		return out
	}
	emit := func(f *c01Node) {
		out.WriteString(c01MemLine(c01MemSyms, rows, f))
		out.WriteByte('\n')
	}
	for _, s := range c01MemSyms {
		var lhss []*c01Node
		if s.isSet {
			lhss = []*c01Node{{kind: "fn", fn: "anyOf", name: s.name}, {kind: "fn", fn: "allOf", name: s.name}, {kind: "fn", fn: "count", name: s.name}}
		} else {
			lhss = []*c01Node{{kind: "sym", name: s.name}}
		}
		for _, l := range lhss {
			for _, op := range c01AllOps {
				for _, k := range c01GrammarLits(op) {
					for _, lit := range lits(k) {
						emit(&c01Node{kind: "cmp", op: op, l: l, lit: lit})
					}
				}
			}
			for _, ak := range []byte{'s', 'n', 'N', 't'} {
				n := &c01Node{kind: "in", l: l, arrK: ak}
				switch ak {
				case 's':
					n.arr = []c01Lit{c01RandLit(r, 's'), c01RandLit(r, 's')}
				case 'n':
					n.arr = []c01Lit{c01RandLit(r, 'i'), c01RandLit(r, 'i')}
				case 'N':
					n.arrK = 'n'
					n.arr = []c01Lit{c01RandLit(r, 'i'), c01RandLit(r, 'f')}
				case 't':
					n.arr = []c01Lit{c01RandLit(r, 't'), c01RandLit(r, 't')}
				}
				emit(n)
				emit(&c01Node{kind: "notE", l: n})
			}
			for _, bk := range [][2]byte{{'i', 'i'}, {'i', 'f'}, {'f', 'f'}, {'t', 't'}} {
				n := &c01Node{kind: "bet", l: l, lo: c01RandLit(r, bk[0]), hi: c01RandLit(r, bk[1])}
				emit(n)
				emit(&c01Node{kind: "notE", l: n})
			}
		}
		if s.isSet {
			emit(&c01Node{kind: "fn", fn: "isEmpty", name: s.name})
		} else {
			emit(&c01Node{kind: "sym", name: s.name})
		}
	}
}

// ------------------------------------------------------------------------------------------ exec

type c01OpenDb struct {
	key    string
	dir    string
	db     *bbolt.DB
	stores []boltz.ConfigurableStore
}

var c01DbCache *c01OpenDb

func (o *c01OpenDb) close() {
	if o == nil {
		return
	}
	_ = o.db.Close()
	_ = os.RemoveAll(o.dir)
}

func c01PutVal(b *boltz.TypedBucket, key string, v c01Val) {
	switch v.ft {
	case boltz.TypeNil:
		b.SetNil(key)
	case boltz.TypeBool:
		b.SetBool(key, v.b[0] == 1, nil)
	case boltz.TypeInt32:
		b.SetInt32(key, *boltz.BytesToInt32(v.b), nil)
	case boltz.TypeInt64:
		b.SetInt64(key, *boltz.BytesToInt64(v.b), nil)
	case boltz.TypeFloat64:
		b.SetFloat64(key, *boltz.BytesToFloat64(v.b), nil)
	case boltz.TypeString:
		b.SetString(key, string(v.b), nil)
	case boltz.TypeTime:
		t := &time.Time{}
		if err := t.UnmarshalBinary(v.b); err != nil {
			panic(err)
		}
		b.SetTimeP(key, t, nil)
	}
}

func c01ParseDataset(t *c01Toks) *c01Dataset {
	ds := &c01Dataset{}
	ns := t.int()
	for st := 0; st < ns; st++ {
		store := c01BStore{name: fmt.Sprintf("s%d", st)}
		k := t.int()
		for i := 0; i < k; i++ {
			s := c01BSym{name: t.next(), kind: t.next()}
			s.typ = c01TokType[t.next()]
			l := t.next()
			s.linked = -1
			if l != "-" {
				s.linked, _ = strconv.Atoi(l)
			}
			store.syms = append(store.syms, s)
		}
		nm := t.int()
		for i := 0; i < nm; i++ {
			store.maps = append(store.maps, t.next())
			t.next()
		}
		nr := t.int()
		var rows []*c01Entity
		for i := 0; i < nr; i++ {
			e := &c01Entity{id: fromWire(t.next()), fields: map[string]c01Val{}, sets: map[string][]c01Val{}, maps: map[string]map[string]c01Val{}}
			nf := t.int()
			for j := 0; j < nf; j++ {
				key := t.next()
				e.fields[key] = c01ParseVal(t.next())
			}
			nset := t.int()
			for j := 0; j < nset; j++ {
				key := t.next()
				e.sets[key] = c01ParseSet(t)
			}
			nmap := t.int()
			for j := 0; j < nmap; j++ {
				mk := t.next()
				cnt := t.int()
				mv := map[string]c01Val{}
				for x := 0; x < cnt; x++ {
					key := t.next()
					mv[key] = c01ParseVal(t.next())
				}
				e.maps[mk] = mv
			}
			rows = append(rows, e)
		}
		ds.stores = append(ds.stores, store)
		ds.rows = append(ds.rows, rows)
	}
	return ds
}

func c01OpenDataset(key string, ds *c01Dataset) *c01OpenDb {
	if c01DbCache != nil && c01DbCache.key == key {
		return c01DbCache
	}
	c01DbCache.close()
	c01DbCache = nil
	dir, err := os.MkdirTemp("", "verif-*")
	if err != nil {
		panic(err)
	}
	db, err := bbolt.Open(dir+"/c01.db", 0600, &bbolt.Options{NoSync: true, NoFreelistSync: true, Timeout: time.Second})
	if err != nil {
		panic(err)
	}
	// nothing stays on disk: the open file remains usable after its directory entry is gone
	_ = os.RemoveAll(dir)
	o := &c01OpenDb{key: key, dir: dir, db: db}
	for _, s := range ds.stores {
		def := (&boltz.StoreDefinition[boltz.Entity]{EntityType: s.name}).WithBasePath("u")
		o.stores = append(o.stores, boltz.NewBaseStore(*def))
	}
	for st, s := range ds.stores {
		store := o.stores[st]
		for _, sym := range s.syms {
			switch {
			case sym.kind == "id":
				store.AddIdSymbol(sym.name, sym.typ)
			case sym.kind == "field" && sym.linked >= 0:
				store.AddFkSymbol(sym.name, o.stores[sym.linked])
			case sym.kind == "field":
				store.AddSymbol(sym.name, sym.typ)
			case sym.kind == "set" && sym.linked >= 0:
				store.AddFkSetSymbol(sym.name, o.stores[sym.linked])
			case sym.kind == "set":
				store.AddSetSymbol(sym.name, sym.typ)
			}
		}
		for _, m := range s.maps {
			store.AddMapSymbol(m, ast.NodeTypeAnyType, m)
		}
	}
	err = db.Update(func(tx *bbolt.Tx) error {
		for st, s := range ds.stores {
			base := boltz.GetOrCreatePath(tx, "u", s.name)
			for _, e := range ds.rows[st] {
				b := base.GetOrCreatePath(e.id)
				for k, v := range e.fields {
					c01PutVal(b, k, v)
				}
				for k, vals := range e.sets {
					sb := b.GetOrCreateBucket(k)
					for _, v := range vals {
						sb.SetListEntry(v.ft, v.b)
					}
					if sb.Err != nil {
						return sb.Err
					}
				}
				for mk, mv := range e.maps {
					mb := b.GetOrCreatePath(mk)
					for k, v := range mv {
						c01PutVal(mb, k, v)
					}
					if mb.Err != nil {
						return mb.Err
					}
				}
				if b.Err != nil {
					return b.Err
				}
			}
		}
		return nil
	})
	if err != nil {
		panic(err)
	}
	c01DbCache = o
	return o
}

func c01Ids(ids []string) string {
	if len(ids) == 0 {
		return "-"
	}
	parts := make([]string, len(ids))
	for i, id := range ids {
		parts[i] = toWire(id)
	}
	return strings.Join(parts, ",")
}

func c01ExecBolt(t *c01Toks) string {
	start := t.p
	ds := c01ParseDataset(t)
	key := strings.Join(t.t[start:t.p], " ")
	root := t.int()
	text := c01ZqlOf(t)
	o := c01OpenDataset(key, ds)
	store := o.stores[root]
	var res string
	_ = o.db.View(func(tx *bbolt.Tx) (err error) {
		defer func() {
			if r := recover(); r != nil {
				res = fmt.Sprintf("panic %q", fmt.Sprint(r))
			}
		}()
		query, perr := ast.Parse(store, text)
		if perr != nil {
			res = "err"
			return nil
		}
		shape := c01ShapeOf(query)
		ids, count, qerr := store.QueryIdsC(tx, query)
		if qerr != nil {
			res = "err"
			return nil
		}
		first := c01Ids(ids)
		if count != int64(len(ids)) {
			first += "#count=" + strconv.FormatInt(count, 10)
		}
		// the same filter through the cursor interface, from a fresh parse
		query2, _ := ast.Parse(store, text)
		var viaCursor []string
		for c := store.IterateIds(tx, query2); c.IsValid(); c.Next() {
			viaCursor = append(viaCursor, string(c.Current()))
		}
		res = "ok " + shape + " " + first + " " + c01Ids(viaCursor)
		return nil
	})
	return res
}
