package main

import (
	"errors"
	"fmt"
	"runtime"
	"strconv"
	"strings"
	"sync/atomic"

	"github.com/openziti/storage/ast"
	"github.com/openziti/storage/boltz"
	"go.etcd.io/bbolt"
)

// Round 14 — cursor-style readers (observation kinds C / D, cw cases, race scenario cursorwalk) and the public-symbol
// validation APIs called with fresh element names (race scenario pubsym).
//
//	C<k><aa>      c := things.IterateIds(tx, Parse(filter k aa))  (k = 7: IterateValidIds), walked to its end
//	D<k><aa><xx>  the same cursor after its walk: c.Seek("a<xx>"), walked to its end again.  Inside mv / cr / race the
//	              observation opens the cursor, walks it, yields (other readers scan meanwhile), seeks and walks again; in a cw
//	              case it repositions the cursor the reader opened with an earlier C<k><aa> of the same read transaction
//
//	cw <seed> <event> ...    ONE goroutine plays the script: several read transactions (raw bbolt read transactions of the
//	    store's database) are open at once while the writer commits, or is in the middle of a transaction, in between
//	    c:<ops> / a:<ops>  a whole write transaction     wb  w:<op>  wc  wa  the same in pieces
//	    rb<r> / re<r>      reader r begins / ends a read transaction       r<r>:<q>  reader r observes q
//	    output: v<committed> then one token per read transaction that observed something, in begin order:
//	    <reader>.<serial>:<tagStart>:<tagEnd>:<q>=<answer>|…   — compared as a whole with the MVCC model's log (driver)

// filter kinds = cursorPred in C18/Store.lean
func c18CursorFilter(k, a int) string {
	switch k {
	case 0, 7:
		return fmt.Sprintf(`rank >= %d`, a)
	case 1:
		return fmt.Sprintf(`anyOf(roles) = "r%d"`, a)
	case 2:
		return fmt.Sprintf(`anyOf(groups) = "g%d"`, a)
	case 3:
		return fmt.Sprintf(`anyOf(groups.label) = "L%d"`, a)
	case 4:
		return fmt.Sprintf(`even = %v`, a == 1)
	case 5:
		return fmt.Sprintf(`name = "n%d"`, a)
	case 6:
		return fmt.Sprintf(`tags.site.name = "s%d"`, a)
	}
	return fmt.Sprintf(`count(from groups where label = "L%d" skip 0 limit 10) > 0`, a)
}

const c18CursorKinds = 9

// the (k, a) pairs, coded k*100+a
func c18CursorArgs(ids []int) []int {
	var r []int
	for k := 0; k < c18CursorKinds; k++ {
		switch k {
		case 0, 7:
			for a := 0; a < 5; a++ {
				r = append(r, k*100+a)
			}
		case 4:
			r = append(r, k*100, k*100+1)
		case 5:
			sub := ids
			if len(sub) > 6 {
				sub = sub[:6]
			}
			for _, id := range sub {
				for g := 0; g < 3; g++ {
					if id*10+g < 100 {
						r = append(r, k*100+id*10+g)
					}
				}
			}
		default:
			for a := 0; a < 3; a++ {
				r = append(r, k*100+a)
			}
		}
	}
	return r
}

// seek positions: row ids with the digit count of the case's ids (bolt's key order is then the numeric order)
func c18SeekArgs(ids []int) []int {
	var r []int
	for _, ka := range c18CursorArgs(ids) {
		sub := ids
		if len(sub) > 5 {
			sub = []int{ids[0], ids[1], ids[len(ids)/2], ids[len(ids)-2], ids[len(ids)-1]}
		}
		for _, x := range sub {
			r = append(r, ka*100+x)
		}
	}
	return r
}

func (e *c18Env) openCursor(tx *bbolt.Tx, k, a int) (ast.SeekableSetCursor, error) {
	q, err := ast.Parse(e.things, c18CursorFilter(k, a))
	if err != nil {
		return nil, err
	}
	if k == 7 {
		return e.things.IterateValidIds(tx, q), nil
	}
	return e.things.IterateIds(tx, q), nil
}

func c18Walk(c ast.SetCursor) []string {
	var ids []string
	for ; c.IsValid(); c.Next() {
		ids = append(ids, string(c.Current()))
	}
	return ids
}

// C / D inside one observe call (mv, cr, race)
func (e *c18Env) observeCursor(tx *bbolt.Tx, kind string, arg int) string {
	k, a, x := arg/100, arg%100, -1
	if kind == "D" {
		k, a, x = arg/10000, arg/100%100, arg%100
	}
	c, err := e.openCursor(tx, k, a)
	if err != nil {
		return "err"
	}
	ids := c18Walk(c)
	if kind == "C" {
		return c18IdNums(ids)
	}
	runtime.Gosched() // the walk is over; other read transactions scan now
	c.Seek([]byte(fmt.Sprintf("a%d", x)))
	return c18IdNums(c18Walk(c))
}

// ------------------------------------------------------------------ cw: the deterministic interleaving

type c18CwReader struct {
	tx      *bbolt.Tx
	serial  int
	reader  int
	tagS    int64
	obs     []string
	cursors map[int]ast.SeekableSetCursor
}

type c18CwRun struct {
	e         *c18Env
	bdb       *bbolt.DB
	events    []string
	pos       int
	open      map[int]*c18CwReader
	nextRtx   int
	tokens    map[int]string
	committed int64
	problem   string

	lastCommitted bool
}

func (r *c18CwRun) endReader(rd *c18CwReader) {
	tagE := c18Tag(rd.tx)
	_ = rd.tx.Rollback()
	if len(rd.obs) > 0 {
		r.tokens[rd.serial] = fmt.Sprintf("%d.%d:%d:%d:%s", rd.reader, rd.serial, rd.tagS, tagE, strings.Join(rd.obs, "|"))
	}
	delete(r.open, rd.reader)
}

func (r *c18CwRun) readerEvent(ev string) {
	switch {
	case strings.HasPrefix(ev, "rb"):
		n, _ := strconv.Atoi(ev[2:])
		if old := r.open[n]; old != nil {
			r.endReader(old)
		}
		tx, err := r.bdb.Begin(false)
		if err != nil {
			r.problem = "begin-failed:" + err.Error()
			return
		}
		r.open[n] = &c18CwReader{tx: tx, serial: r.nextRtx, reader: n, tagS: c18Tag(tx), cursors: map[int]ast.SeekableSetCursor{}}
		r.nextRtx++
	case strings.HasPrefix(ev, "re"):
		n, _ := strconv.Atoi(ev[2:])
		if rd := r.open[n]; rd != nil {
			r.endReader(rd)
		}
	default: // r<n>:<q>
		p := strings.SplitN(ev[1:], ":", 2)
		if len(p) != 2 {
			r.problem = "bad-event:" + ev
			return
		}
		n, _ := strconv.Atoi(p[0])
		rd := r.open[n]
		if rd == nil {
			return
		}
		q := p[1]
		kind := strings.TrimRight(q, "0123456789")
		arg, _ := strconv.Atoi(q[len(kind):])
		var ans string
		// a panic inside one observation (e.g. a cursor evaluating on another reader's closed transaction) is that
		// observation's answer; the script goes on
		func() {
			defer func() {
				if rec := recover(); rec != nil {
					ans = "panic"
				}
			}()
			ans = r.cwObserve(rd, kind, arg, q)
		}()
		rd.obs = append(rd.obs, q+"="+ans)
	}
}

func (r *c18CwRun) cwObserve(rd *c18CwReader, kind string, arg int, q string) string {
	{
		var ans string
		switch kind {
		case "C":
			c, err := r.e.openCursor(rd.tx, arg/100, arg%100)
			if err != nil {
				ans = "err"
				break
			}
			rd.cursors[arg] = c
			ans = c18IdNums(c18Walk(c))
		case "D":
			c := rd.cursors[arg/100]
			if c == nil {
				var err error
				if c, err = r.e.openCursor(rd.tx, arg/10000, arg/100%100); err != nil {
					ans = "err"
					break
				}
				rd.cursors[arg/100] = c
				_ = c18Walk(c)
			}
			c.Seek([]byte(fmt.Sprintf("a%d", arg%100)))
			ans = c18IdNums(c18Walk(c))
		default:
			ans = r.e.observe(rd.tx, q)
		}
		return ans
	}
}

// plays events until the script ends or (inside a write transaction) the writer's end event; returns that event
func (r *c18CwRun) play(ctx boltz.MutateContext) string {
	for r.pos < len(r.events) && r.problem == "" {
		ev := r.events[r.pos]
		r.pos++
		switch {
		case ev == "wc" || ev == "wa":
			if ctx != nil {
				return ev
			}
		case ev == "wb":
			if ctx != nil {
				continue // bolt: one writer at a time (the model ignores a second begin)
			}
			r.writeTx(nil, false)
		case strings.HasPrefix(ev, "w:"):
			if ctx != nil {
				if err := r.e.applyOp(ctx, ev[2:]); err != nil {
					r.problem = "writer-error:" + strings.ReplaceAll(err.Error(), " ", "_")
				}
			}
		case strings.HasPrefix(ev, "c:") || strings.HasPrefix(ev, "a:"):
			if ctx != nil {
				r.problem = "bad-script:whole-transaction-inside-open-one"
				return ""
			}
			var ops []string
			if len(ev) > 2 {
				ops = strings.Split(ev[2:], "/")
			}
			r.writeTx(ops, true)
			if (ev[0] == 'c') != r.lastCommitted {
				r.problem = "writer-outcome"
			}
		case strings.HasPrefix(ev, "r"):
			r.readerEvent(ev)
		default:
			r.problem = "bad-event:" + ev
		}
	}
	return ""
}

var errC18Abort = errors.New("abort requested")

func (r *c18CwRun) writeTx(ops []string, whole bool) {
	commit := false
	err := r.e.db.Update(nil, func(ctx boltz.MutateContext) error {
		b := boltz.GetOrCreatePath(ctx.Tx(), "ver")
		b.SetInt64("n", r.committed+1, nil)
		if b.HasError() {
			return b.GetError()
		}
		if whole {
			for _, op := range ops {
				if op == "" {
					continue
				}
				if err := r.e.applyOp(ctx, op); err != nil {
					return fmt.Errorf("op %s: %w", op, err)
				}
			}
			commit = r.events[r.pos-1][0] == 'c'
		} else {
			commit = r.play(ctx) == "wc"
		}
		if r.problem != "" || !commit {
			return errC18Abort
		}
		return nil
	})
	r.lastCommitted = false
	if commit && err == nil {
		r.committed++
		r.lastCommitted = true
	} else if commit && err != nil {
		r.problem = "writer-error:" + strings.ReplaceAll(err.Error(), " ", "_")
	} else if err == nil {
		r.problem = "abort-committed"
	}
}

func c18Cw(f []string) string {
	if len(f) < 3 {
		return "bad-case"
	}
	e, err := c18Open()
	if err != nil {
		return "setup-failed " + err.Error()
	}
	defer e.close()
	var bdb *bbolt.DB
	_ = e.db.View(func(tx *bbolt.Tx) error { bdb = tx.DB(); return nil })
	// make room in the file: a commit must never have to re-map it while the script's read transactions are open
	_ = e.db.Update(nil, func(ctx boltz.MutateContext) error {
		b, err := ctx.Tx().CreateBucketIfNotExists([]byte("scratch"))
		if err != nil {
			return err
		}
		return b.Put([]byte("x"), make([]byte, 4<<20))
	})
	_ = e.db.Update(nil, func(ctx boltz.MutateContext) error { return ctx.Tx().DeleteBucket([]byte("scratch")) })
	_ = e.db.Update(nil, func(ctx boltz.MutateContext) error { return nil })

	r := &c18CwRun{e: e, bdb: bdb, events: f[2:], open: map[int]*c18CwReader{}, tokens: map[int]string{}}
	func() {
		defer func() {
			if rec := recover(); rec != nil {
				r.problem = fmt.Sprintf("reader-panic:%v", rec)
			}
		}()
		r.play(nil)
	}()
	for _, rd := range r.openReaders() {
		r.endReader(rd)
	}
	if r.problem != "" {
		return strings.ReplaceAll(r.problem, " ", "_")
	}
	final := int64(-1)
	_ = e.db.View(func(tx *bbolt.Tx) error { final = c18Tag(tx); return nil })
	out := []string{fmt.Sprintf("v%d", final)}
	for n := 0; n < r.nextRtx; n++ {
		if t, ok := r.tokens[n]; ok {
			out = append(out, t)
		}
	}
	return strings.Join(out, " ")
}

func (r *c18CwRun) openReaders() []*c18CwReader {
	var rs []*c18CwReader
	for n := 0; n < 16; n++ {
		if rd := r.open[n]; rd != nil {
			rs = append(rs, rd)
		}
	}
	return rs
}

// ------------------------------------------------------------------ cw generator

var c18CwPlainKinds = []string{"K", "N", "R", "G", "H", "T", "X", "M", "A", "iN", "iR", "lG", "E"}

func c18GenCw(r *rng, n int) string {
	gen := make([]int, 6)
	var evs []string
	// some rows first
	for i := 0; i < 2; i++ {
		evs = append(evs, c18GenTx(r, gen))
	}
	type rstate struct {
		open   bool
		walked []int
	}
	readers := make([]rstate, 2+r.intn(2))
	writerOpen := false
	cargs := c18CursorArgs(c18MvIds)
	for len(evs) < n {
		ri := r.intn(len(readers))
		rd := &readers[ri]
		switch x := r.intn(20); {
		case x < 3 && !writerOpen:
			evs = append(evs, c18GenTx(r, gen))
		case x < 4 && !writerOpen:
			evs = append(evs, "wb")
			writerOpen = true
		case x < 6 && writerOpen:
			t := c18GenTx(r, gen)
			for _, op := range strings.Split(t[2:], "/") {
				if op != "" {
					evs = append(evs, "w:"+op)
					break
				}
			}
		case x < 7 && writerOpen:
			evs = append(evs, pick(r, []string{"wc", "wc", "wa"}))
			writerOpen = false
		case !rd.open:
			evs = append(evs, fmt.Sprintf("rb%d", ri))
			rd.open, rd.walked = true, nil
		case x < 8:
			evs = append(evs, fmt.Sprintf("re%d", ri))
			rd.open = false
		case x < 12:
			ka := pick(r, cargs)
			for kind := r.intn(c18CursorKinds); ka/100 != kind; {
				ka = pick(r, cargs)
			}
			rd.walked = append(rd.walked, ka)
			evs = append(evs, fmt.Sprintf("r%d:C%d", ri, ka))
		case x < 16 && len(rd.walked) > 0:
			evs = append(evs, fmt.Sprintf("r%d:D%d", ri, pick(r, rd.walked)*100+r.intn(7)))
		case x < 17:
			evs = append(evs, fmt.Sprintf("r%d:D%d", ri, pick(r, cargs)*100+r.intn(7)))
		default:
			k := pick(r, c18CwPlainKinds)
			evs = append(evs, fmt.Sprintf("r%d:%s%d", ri, k, pick(r, c18Args(k, c18MvIds))))
		}
	}
	if writerOpen {
		evs = append(evs, "wc")
	}
	return fmt.Sprintf("cw %d %s", r.next()%1000000, strings.Join(evs, " "))
}

// ------------------------------------------------------------------ race scenarios

// process-wide: no element name is presented twice
var c18FreshNameCounter atomic.Uint64

// identifiers of the filter language: letters and underscores
func c18FreshName() string {
	n := c18FreshNameCounter.Add(1)
	b := []byte{'k', '_'}
	for ; ; n /= 26 {
		b = append(b, byte('a'+n%26))
		if n < 26 {
			break
		}
	}
	return string(b)
}

// one iteration of the pubsym scenario: the symbol-validation / resolution read APIs of the shared store with element names
// of the public map symbol `tags` (and of the non-public `attrs`) that nobody has presented before
func (e *c18Env) pubsymIteration(g, i int) string {
	k1, k2 := c18FreshName(), c18FreshName()
	pub := fmt.Sprintf("tags.%s", k1)
	pubNested := fmt.Sprintf("tags.nested.%s", k2)
	priv := fmt.Sprintf("attrs.%s", k1)
	if !e.things.IsPublicSymbol(pub) || !e.things.IsPublicSymbol(pubNested) {
		return "pubsym:public-element-rejected:" + pub
	}
	if e.things.IsPublicSymbol(priv) || e.things.IsPublicSymbol("nosuch."+k1) {
		return "pubsym:non-public-accepted:" + priv
	}
	for name, want := range e.publicFixed {
		if e.things.IsPublicSymbol(name) != want {
			return "pubsym:changed:" + name
		}
	}
	q, err := ast.Parse(e.things, fmt.Sprintf(`name = "n%d" and %s = "v" and %s = %d`, i, pub, pubNested, i))
	if err != nil {
		return "pubsym:parse:" + err.Error()
	}
	if err = boltz.ValidateSymbolsArePublic(q, e.things); err != nil {
		return "pubsym:valid-filter-rejected:" + err.Error()
	}
	q, err = ast.Parse(e.things, fmt.Sprintf(`%s = "v"`, priv))
	if err != nil {
		return "pubsym:parse:" + err.Error()
	}
	if err = boltz.ValidateSymbolsArePublic(q, e.things); err == nil {
		return "pubsym:non-public-filter-accepted:" + priv
	}
	if n := len(e.things.GetPublicSymbols()); n != e.publicCount {
		return fmt.Sprintf("pubsym:GetPublicSymbols-%d-instead-of-%d", n, e.publicCount)
	}
	if s := e.things.GetSymbol(pub); s == nil {
		return "pubsym:GetSymbol:" + pub
	}
	if t, ok := e.things.GetSymbolType(pubNested); !ok || t != ast.NodeTypeAnyType {
		return "pubsym:GetSymbolType:" + pubNested
	}
	if (g+i)%3 == 0 {
		sc := e.things.NewScanner(q.GetSortFields())
		if sc == nil {
			return "pubsym:NewScanner"
		}
	}
	return ""
}
