package main

import (
	"context"
	"fmt"
	"io"
	"os"
	"strings"
	"time"

	"github.com/openziti/storage/ast"
	"github.com/openziti/storage/boltz"
	"github.com/sirupsen/logrus"
	"go.etcd.io/bbolt"
)

// ---------------------------------------------------------------------------------------------------------
// process-wide configuration (seeded C10-16 class): ast.EnableQueryDebug and the log level switch on code that
// the default configuration never runs.  c10UnderDebugConfig runs f with both switched on and restores them.

func c10UnderDebugConfig(f func()) {
	oldLevel := logrus.GetLevel()
	oldOut := logrus.StandardLogger().Out
	ast.EnableQueryDebug.Store(true)
	logrus.SetLevel(logrus.DebugLevel)
	logrus.SetOutput(io.Discard)
	defer func() {
		ast.EnableQueryDebug.Store(false)
		logrus.SetLevel(oldLevel)
		logrus.SetOutput(oldOut)
	}()
	f()
}

// c10ParseUnderDebug: the result class of ast.Parse with query debugging switched on (`P` = it panicked)
func c10ParseUnderDebug(syms ast.SymbolTypes, text string, le bool) (res string) {
	defer func() {
		if r := recover(); r != nil {
			res = "P"
		}
	}()
	c10UnderDebugConfig(func() {
		q, err := ast.Parse(syms, text)
		res = c10Classify(err, le)
		if err == nil {
			_ = q.GetSortFields()
			_ = q.String()
		}
	})
	return res
}

// ---------------------------------------------------------------------------------------------------------
// N <state> <store> <valid> <sort> <skip> <limit> <predicate hex>
//
// Read APIs against a database FILE in which structural buckets were never created.
//
//	state:  nothing (empty file) | other (only a store under another base path was written) | sib (only another
//	        store under the SAME base path) | parent (things written - entity buckets without fields, no child data,
//	        no index buckets; kids never) | child (kids written; things never) | full (everything written through
//	        the stores, indexes initialised)
//	store:  things | kids | ext (child store of things: its data lives inside the things entity buckets)
//	text  = predicate [sort by <sort>] [skip <skip>] [limit <limit>]   (sort `s:a,n:d`, '-' = absent; limit `none`)
//
// -> fresh=<api>:<answer>,...   answer: E (empty / not found / nil) | R<n> (rows) | X (error) | P (panic) | - (not run)
//
//	p   ast.Parse(store, text)            qi  QueryIds            qc  QueryIdsC          qw  QueryWithCursorC over the
//	related-entities cursor of the probe id        qn  QueryWithCursorC with a provider that yields nil
//	it  IterateIds      iv  IterateValidIds       fb  FindById       rl  GetRelatedEntitiesIdList
//	rc  GetRelatedEntitiesCursor     ux  unique ReadIndex.Read     sx  set ReadIndex.Read     dq  QueryIds with
//	ast.EnableQueryDebug + debug log level

type c10Thing struct {
	Type string
	Id   string
	S    string
	Ss   []string
	Kids []string
}

func (e *c10Thing) GetId() string         { return e.Id }
func (e *c10Thing) SetId(id string)       { e.Id = id }
func (e *c10Thing) GetEntityType() string {
	if e.Type == "" {
		return "things"
	}
	return e.Type
}

type c10ThingStrategy struct{ etype string }

func (s c10ThingStrategy) NewEntity() *c10Thing { return &c10Thing{Type: s.etype} }
func (c10ThingStrategy) FillEntity(e *c10Thing, b *boltz.TypedBucket) {
	e.S = b.GetStringWithDefault("s", "")
	e.Ss = b.GetStringList("ss")
	e.Kids = b.GetStringList("kids")
}
func (c10ThingStrategy) PersistEntity(e *c10Thing, ctx *boltz.PersistContext) {
	ctx.SetString("s", e.S)
	ctx.SetStringList("ss", e.Ss)
	ctx.SetStringList("kids", e.Kids)
}

type c10ExtThing struct {
	c10Thing
	X string
}

type c10ExtStrategy struct {
	parent *boltz.BaseStore[*c10Thing]
}

func (s *c10ExtStrategy) NewEntity() *c10ExtThing { return &c10ExtThing{} }
func (s *c10ExtStrategy) FillEntity(e *c10ExtThing, b *boltz.TypedBucket) {
	_, err := s.parent.LoadEntity(b.Tx(), e.Id, &e.c10Thing)
	b.SetError(err)
	e.X = b.GetStringWithDefault("x", "")
}
func (s *c10ExtStrategy) PersistEntity(e *c10ExtThing, ctx *boltz.PersistContext) {
	s.parent.GetEntityStrategy().PersistEntity(&e.c10Thing, ctx.GetParentContext())
	ctx.SetString("x", e.X)
}

type c10Fresh struct {
	db     *bbolt.DB
	things *boltz.BaseStore[*c10Thing]
	kids   *boltz.BaseStore[*c10Thing]
	ext    *boltz.BaseStore[*c10ExtThing]
	ux     map[string]boltz.ReadIndex
	sx     map[string]boltz.SetReadIndex
}

var c10FreshCache = map[string]*c10Fresh{}

func c10OpenFresh(state string) *c10Fresh {
	if b, ok := c10FreshCache[state]; ok {
		return b
	}
	dir, err := os.MkdirTemp("", "verif-*")
	if err != nil {
		panic(err)
	}
	db, err := bbolt.Open(dir+"/c10n.db", 0600, &bbolt.Options{NoSync: true, NoFreelistSync: true, Timeout: time.Second})
	if err != nil {
		panic(err)
	}
	_ = os.RemoveAll(dir)
	fr := &c10Fresh{db: db, ux: map[string]boltz.ReadIndex{}, sx: map[string]boltz.SetReadIndex{}}
	mk := func(etype string) *boltz.BaseStore[*c10Thing] {
		st := boltz.NewBaseStore(boltz.StoreDefinition[*c10Thing]{EntityType: etype, EntityStrategy: c10ThingStrategy{etype}, BasePath: []string{"u"},
			EntityNotFoundF: func(id string) error { return boltz.NewNotFoundError(etype, "id", id) }})
		st.InitImpl(st)
		return st
	}
	fr.things, fr.kids = mk("things"), mk("kids")
	fr.ext = boltz.NewBaseStore(boltz.StoreDefinition[*c10ExtThing]{EntityStrategy: &c10ExtStrategy{parent: fr.things}, BasePath: []string{"ext"},
		Parent: fr.things, ParentMapper: func(e boltz.Entity) boltz.Entity {
			if x, ok := e.(*c10ExtThing); ok {
				return &x.c10Thing
			}
			return e
		}, EntityNotFoundF: func(id string) error { return boltz.NewNotFoundError("things", "id", id) }})
	fr.ext.InitImpl(fr.ext)
	for name, st := range map[string]*boltz.BaseStore[*c10Thing]{"things": fr.things, "kids": fr.kids} {
		st.AddIdSymbol("id", ast.NodeTypeString)
		symS := st.AddSymbol("s", ast.NodeTypeString)
		st.AddSymbol("n", ast.NodeTypeInt64)
		st.AddSymbol("b", ast.NodeTypeBool)
		symSs := st.AddSetSymbol("ss", ast.NodeTypeString)
		st.AddMapSymbol("tags", ast.NodeTypeAnyType, "tags")
		fr.ux[name] = st.AddNullableUniqueIndex(symS)
		fr.sx[name] = st.AddSetIndex(symSs)
	}
	fr.things.AddFkSetSymbol("kids", fr.kids)
	fr.kids.AddFkSetSymbol("kids", fr.things)
	fr.ext.AddIdSymbol("id", ast.NodeTypeString)
	fr.ext.AddSymbol("s", ast.NodeTypeString)
	fr.ext.AddSymbol("n", ast.NodeTypeInt64)
	fr.ext.AddSymbol("b", ast.NodeTypeBool)
	fr.ext.AddSetSymbol("ss", ast.NodeTypeString)
	fr.ext.AddMapSymbol("tags", ast.NodeTypeAnyType, "tags")
	fr.ext.AddFkSetSymbol("kids", fr.kids)
	fr.ext.AddSymbol("x", ast.NodeTypeString)
	fr.ux["ext"], fr.sx["ext"] = fr.ux["things"], fr.sx["things"]

	err = db.Update(func(tx *bbolt.Tx) error {
		switch state {
		case "nothing":
		case "other":
			boltz.GetOrCreatePath(tx, "v", "others").GetOrCreatePath("o1").SetString("s", "x", nil)
		case "sib":
			boltz.GetOrCreatePath(tx, "u", "sibs").GetOrCreatePath("t1").SetString("s", "x", nil)
		case "parent":
			boltz.GetOrCreatePath(tx, "u", "things").GetOrCreatePath("t1")
		case "child":
			boltz.GetOrCreatePath(tx, "u", "kids").GetOrCreatePath("t1")
		case "full":
			ctx := boltz.NewTxMutateContext(context.Background(), tx)
			eh := &c10ErrHolder{}
			fr.things.InitializeIndexes(tx, eh)
			fr.kids.InitializeIndexes(tx, eh)
			fr.ext.InitializeIndexes(tx, eh)
			if eh.err != nil {
				return eh.err
			}
			if err := fr.kids.Create(ctx, &c10Thing{Type: "kids", Id: "t1", S: "k", Ss: []string{"x"}}); err != nil {
				return err
			}
			if err := fr.kids.Create(ctx, &c10Thing{Type: "kids", Id: "k2", S: "k2"}); err != nil {
				return err
			}
			if err := fr.ext.Create(ctx, &c10ExtThing{c10Thing: c10Thing{Id: "t1", S: "x", Ss: []string{"x", "y"}, Kids: []string{"t1", "k2"}}, X: "e"}); err != nil {
				return err
			}
			return fr.things.Create(ctx, &c10Thing{Id: "t2", S: "y"})
		default:
			return fmt.Errorf("unknown state %s", state)
		}
		return nil
	})
	if err != nil {
		panic(err)
	}
	c10FreshCache[state] = fr
	return fr
}

type c10ErrHolder struct{ err error }

func (h *c10ErrHolder) HasError() bool { return h.err != nil }
func (h *c10ErrHolder) GetError() error { return h.err }
func (h *c10ErrHolder) SetError(err error) bool {
	if h.err == nil && err != nil {
		h.err = err
		return true
	}
	return false
}

func c10FreshText(f []string) string {
	text := fromWire(f[7])
	if f[4] != "-" {
		var fs []string
		for _, sf := range strings.Split(f[4], ",") {
			p := strings.SplitN(sf, ":", 2)
			d := ""
			if len(p) == 2 && p[1] == "d" {
				d = " desc"
			}
			fs = append(fs, p[0]+d)
		}
		text += " sort by " + strings.Join(fs, ", ")
	}
	if f[5] != "-" {
		text += " skip " + f[5]
	}
	if f[6] != "-" {
		text += " limit " + f[6]
	}
	return strings.TrimSpace(text)
}

// one API call with its own recover
func c10Api(name string, f func() string) (res string) {
	defer func() {
		if r := recover(); r != nil {
			res = name + ":P"
		}
	}()
	return name + ":" + f()
}

func c10Rows(n int, err error) string {
	if err != nil {
		return "X"
	}
	if n == 0 {
		return "E"
	}
	return fmt.Sprintf("R%d", n)
}

func c10CountCursor(c ast.SetCursor) int {
	n := 0
	for ; c.IsValid(); c.Next() {
		n++
		if n > 100000 {
			break
		}
	}
	return n
}

func c10ExecFresh(f []string) string {
	if len(f) != 8 {
		return "bad-case"
	}
	fr := c10OpenFresh(f[1])
	text := c10FreshText(f)
	const probe = "t1"
	var out []string
	_ = fr.db.View(func(tx *bbolt.Tx) error {
		type qstore interface {
			ast.SymbolTypes
			QueryIds(tx *bbolt.Tx, query string) ([]string, int64, error)
			QueryIdsC(tx *bbolt.Tx, query ast.Query) ([]string, int64, error)
			QueryWithCursorC(tx *bbolt.Tx, cursorProvider ast.SetCursorProvider, query ast.Query) ([]string, int64, error)
			IterateIds(tx *bbolt.Tx, filter ast.BoolNode) ast.SeekableSetCursor
			IterateValidIds(tx *bbolt.Tx, filter ast.BoolNode) ast.SeekableSetCursor
			GetRelatedEntitiesIdList(tx *bbolt.Tx, id string, field string) []string
			GetRelatedEntitiesCursor(tx *bbolt.Tx, id string, field string, forward bool) ast.SetCursor
		}
		var st qstore
		var find func() string
		switch f[2] {
		case "things":
			st = fr.things
			find = func() string { _, ok, err := fr.things.FindById(tx, probe); return c10Rows(map[bool]int{true: 1}[ok], err) }
		case "kids":
			st = fr.kids
			find = func() string { _, ok, err := fr.kids.FindById(tx, probe); return c10Rows(map[bool]int{true: 1}[ok], err) }
		default:
			st = fr.ext
			find = func() string { _, ok, err := fr.ext.FindById(tx, probe); return c10Rows(map[bool]int{true: 1}[ok], err) }
		}
		parse := func() (ast.Query, bool) {
			q, err := ast.Parse(st, text)
			return q, err == nil
		}
		out = append(out, c10Api("p", func() string {
			_, ok := parse()
			if ok {
				return "ok"
			}
			return "X"
		}))
		out = append(out, c10Api("qi", func() string { ids, _, err := st.QueryIds(tx, text); return c10Rows(len(ids), err) }))
		withQuery := func(name string, g func(q ast.Query) string) {
			out = append(out, c10Api(name, func() string {
				q, ok := parse()
				if !ok {
					return "-"
				}
				return g(q)
			}))
		}
		withQuery("qc", func(q ast.Query) string { ids, _, err := st.QueryIdsC(tx, q); return c10Rows(len(ids), err) })
		withQuery("qw", func(q ast.Query) string {
			ids, _, err := st.QueryWithCursorC(tx, func(tx *bbolt.Tx, fwd bool) ast.SetCursor {
				return st.GetRelatedEntitiesCursor(tx, probe, "kids", fwd)
			}, q)
			return c10Rows(len(ids), err)
		})
		withQuery("qn", func(q ast.Query) string {
			ids, _, err := st.QueryWithCursorC(tx, func(*bbolt.Tx, bool) ast.SetCursor { return nil }, q)
			return c10Rows(len(ids), err)
		})
		withQuery("it", func(q ast.Query) string { return c10Rows(c10CountCursor(st.IterateIds(tx, q)), nil) })
		withQuery("iv", func(q ast.Query) string { return c10Rows(c10CountCursor(st.IterateValidIds(tx, q)), nil) })
		out = append(out, c10Api("fb", find))
		out = append(out, c10Api("rl", func() string { return c10Rows(len(st.GetRelatedEntitiesIdList(tx, probe, "kids")), nil) }))
		out = append(out, c10Api("rc", func() string { return c10Rows(c10CountCursor(st.GetRelatedEntitiesCursor(tx, probe, "kids", true)), nil) }))
		out = append(out, c10Api("ux", func() string {
			if fr.ux[f[2]].Read(tx, []byte("x")) == nil {
				return "E"
			}
			return "R1"
		}))
		out = append(out, c10Api("sx", func() string {
			n := 0
			fr.sx[f[2]].Read(tx, []byte("x"), func([]byte) { n++ })
			return c10Rows(n, nil)
		}))
		out = append(out, c10Api("dq", func() (res string) {
			c10UnderDebugConfig(func() { ids, _, err := st.QueryIds(tx, text); res = c10Rows(len(ids), err) })
			return res
		}))
		return nil
	})
	return "fresh=" + strings.Join(out, ",")
}

var c10FreshStates = []string{"nothing", "other", "sib", "parent", "child", "full"}
var c10FreshStores = []string{"things", "kids", "ext"}

// predicates over the N schema: every filter family; `valid` by construction
var c10FreshValid = []string{"", "true", "false", `s = "x"`, `s != null`, "n > 3", "not b", `anyOf(ss) = "x"`, `allOf(ss) != "x"`, "isEmpty(ss)",
	"count(kids) > 0", `anyOf(kids) = "t1"`, `anyOf(kids.s) = "k"`, `count(from kids where s = "k") > 0`, `isEmpty(from kids where true)`,
	`tags.x = 5`, `s in ["x", "y"]`, "n between 1 and 5", `s contains "x" or n = 1 and not b`, `id = "t1"`, `anyOf(kids.kids.ss) = "x"`}
var c10FreshInvalid = []string{"zz = 1", `n = "5"`, `anyOf(s) = "x"`, "s = ", "a = 1 @", "count(from zz where true) > 0"}
var c10FreshSorts = []string{"-", "id:a", "id:d", "s:a", "n:d", "b:a,s:d", "s:a,id:d", "zz:a", "ss:a", "tags.x:a", "kids:d", "id:a,zz:a", "s:a,n:a,b:a,s:d,n:d,id:a"}
var c10FreshPaging = [][2]string{{"-", "-"}, {"0", "none"}, {"1", "2"}, {"-", "0"}, {"5", "-"}, {"-1", "-1"}, {"9223372036854775807", "9223372036854775807"}, {"-", "5"}}

func (g *c10Gen) genFresh() {
	emit := func(state, store string, valid bool, sort, skip, limit, pred string) {
		fmt.Fprintf(g.out, "N %s %s %s %s %s %s %s\n", state, store, b01(valid), sort, skip, limit, toWire(pred))
	}
	thorough := g.tier == "thorough"
	for _, state := range c10FreshStates {
		for _, store := range c10FreshStores {
			// every filter family, unsorted / sorted by id / by a field
			for _, p := range c10FreshValid {
				for _, so := range []string{"-", "id:d", "s:a"} {
					emit(state, store, true, so, "-", "-", p)
				}
			}
			for _, p := range c10FreshInvalid {
				emit(state, store, false, "-", "-", "-", p)
			}
			// every sort clause x paging, with and without predicate
			for _, so := range c10FreshSorts {
				for _, pg := range c10FreshPaging {
					if !thorough && pg != c10FreshPaging[0] && !g.r.chance(1, 3) {
						continue
					}
					emit(state, store, true, so, pg[0], pg[1], pick(g.r, []string{"", "true", `s = "x"`, `anyOf(ss) = "x"`}))
				}
			}
		}
	}
	n := 300
	if thorough {
		n = 20000
	}
	for i := 0; i < n; i++ {
		pg := pick(g.r, c10FreshPaging)
		emit(pick(g.r, c10FreshStates), pick(g.r, c10FreshStores), true, pick(g.r, c10FreshSorts), pg[0], pg[1], pick(g.r, c10FreshValid))
	}
}
