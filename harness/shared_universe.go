package main

// Universe stream — a generic net underneath the store-level properties (C03 C04 C05 C06 C15 C09).
//
// One seeded PRNG draws, per case, a RANDOM MAXIMAL SCHEMA (2–3 root stores, 0–2 plain / extended child
// stores each, unique / set / fk indexes, fk constraints, plain and ref-counted link collections between
// any two stores, naming variants symbol name / stored key / path prefix / caller-side checker name) and
// a random history of transactions.  `exec` wires the schema on REAL stores through the exported API of
// /repo/boltz, runs the history (first error of a transaction rolls it back) and after every COMMITTED
// transaction prints the whole database (boltz.Traverse) and what CheckIntegrity(fix=false) of every
// store said.  The Lean oracle `driver_universe` (lean/StorageModel/Universe) decides the state
// predicates on schema + dump; checks/universe.py drives both.  Documentation: notes/UNIVERSE.md.
//
// This file is compiled into every property's harness binary: it depends on main.go / util.go only.
//
// Case line:  U @S <schema token> ... @H <tx> <tx> ...        tx = <op>;<op>;...
//
// schema tokens (fields ':'-separated, path segments '.'-separated, '-' = empty; names are plain ASCII):
//
//	st:<name>:<etype>:<parent|->:<ext 0|1>:<path>:<delegate 0|1>   store (root: path = BasePath; child: data path inside the
//	                                                                parent's entity bucket, etype inherited); order = creation and
//	                                                                RegisterChildStoreStrategy order; delegate: the update handler's
//	                                                                mapper hands updates of entities with child data to the child store
//	f:<store>:<sym>:<key>:<prefix>:<chk>:<s|l>:<linked|->          field: symbol name, stored key, bucket prefix inside the store's
//	                                                                entity bucket, caller-side checker name, scalar / string list,
//	                                                                linked store (fk symbol)
//	bk:<store>:<sym>:<referrer store>                               fk back-reference set symbol (AddFkSetSymbol)
//	ux:<store>:<sym>:<nullable>                                     AddUniqueIndex / AddNullableUniqueIndex
//	sx:<store>:<sym>                                                AddSetIndex
//	fi:<store>:<sym>:<nullable>:<cascade>:<target>:<back sym>       AddFkIndex / AddNullableFkIndex / AddFkIndexCascadeDelete
//	fc:<store>:<sym>:<nullable>:<n|d>:<target>                      AddFkConstraint(.., CascadeNone | CascadeDelete)
//	lk:<name>:<p|r>:<storeA>:<symA>:<keyA>:<prefA>:<storeB>:<symB>:<keyB>:<prefB>   link collection (plain / ref-counted), registered
//	                                                                on both stores (once when both ends are the same symbol)
//	sy:<root store>                                                 the store has the bool field isSystem and the system entity
//	                                                                constraint (NewSystemEntityEnforcementConstraint); every context of
//	                                                                the stream is an ORDINARY one
//	ids:<root>:<hex,hex,...>                                        the ids the history uses for that family (no-trace scan)
//	cx:<0|1>                                                        1 = ONE MutateContext reused for every Db.Update of the case
//
// operations (values hex, '-' empty, '~' nil; lists '[' h+h+h ']'):
//
//	c:<store>:<id>:<assign>,...          Create      assign = <sym>=<val> | @<linksym>=[ids]  (SetLinkedIds inside PersistEntity)
//	                                                 | !sys=1  (the entity asks to be a system entity)
//	u:<store>:<id>:<assign>,...          Update, nil checker
//	p:<store>:<id>:<names>:<assign>,...  Update with MapFieldChecker{names}   (names '+'-separated)
//	d:<store>:<id>                       DeleteById          w:<store>:<hex query>    DeleteWhere
//	blk:<store>:<n>:<assign>,...         n Creates with the ids z0001 … (value '#' = the entity's own id; list '[*n]' = these ids)
//	al|rl|sl:<link>:<a|b>:<id>:<ids>     AddLinks / RemoveLinks / SetLinks     a1|r1:<link>:<side>:<id>:<id2>   AddLink / RemoveLink
//	inc|dec:<link>:<side>:<id>:<id2>     Increment / DecrementLinkCount       set:<link>:<side>:<id>:<id2>:<n> SetLinkCount
//
// Output line:  R <tx result> ... ;; S<k> I<reports>:<same|changed>:<first report hex> @D <dump> ;; ...
//
//	tx result = <k>:<c|a>:<op result>,...      one S segment per COMMITTED transaction
//	dump token = b<seg>.<seg>...  (bucket)  |  k<seg>.<seg>...=<value>   (key/value; segments and value hex)

import (
	"bufio"
	"context"
	"errors"
	"fmt"
	"os"
	"path/filepath"
	"runtime/debug"
	"sort"
	"strconv"
	"strings"

	"github.com/openziti/storage/ast"
	"github.com/openziti/storage/boltz"
	"go.etcd.io/bbolt"
)

func init() {
	register("universe", &propHarness{gen: uvGen, exec: uvExec})
}

// ---------------------------------------------------------------------------------------------- schema

type uvField struct {
	store  string
	sym    string
	key    string
	prefix []string
	chk    string
	kind   byte // 's' scalar | 'l' string list
	linked string
}

type uvBack struct{ store, sym, referrer string }

type uvCons struct {
	kind     string // ux sx fi fc
	store    string
	sym      string
	nullable bool
	cascade  bool
	target   string
	back     string
}

type uvEnd struct {
	store  string
	sym    string
	key    string
	prefix []string
}

type uvLink struct {
	name  string
	rc    bool
	ends  [2]uvEnd
	plain [2]boltz.LinkCollection
	rcc   [2]boltz.RefCountedLinkCollection
}

func (l *uvLink) selfSame() bool {
	return l.ends[0].store == l.ends[1].store && l.ends[0].sym == l.ends[1].sym
}

type uvStore struct {
	name     string
	etype    string
	parent   string
	ext      bool
	path     []string
	delegate bool

	sys bool // root store with the isSystem field and the system entity constraint

	par      *uvStore
	children []*uvStore
	fields   []*uvField
	linkSyms []string // names of link-end symbols declared on this store (plain collections: SetLinkedIds)
	bs       *boltz.BaseStore[*uvEnt]
	syms     map[string]boltz.EntitySymbol
}

func (s *uvStore) root() *uvStore {
	if s.par != nil {
		return s.par.root()
	}
	return s
}

type uvSchema struct {
	tokens []string
	stores []*uvStore
	byName map[string]*uvStore
	fields []*uvField
	backs  []*uvBack
	cons   []*uvCons
	links  []*uvLink
	lkBy   map[string]*uvLink
	ids    map[string][]string
	reuse  bool
}

func uvPath(s string) []string {
	if s == "-" || s == "" {
		return nil
	}
	return strings.Split(s, ".")
}

func uvPathS(p []string) string {
	if len(p) == 0 {
		return "-"
	}
	return strings.Join(p, ".")
}

func uvParseSchema(tokens []string) (*uvSchema, error) {
	sc := &uvSchema{tokens: tokens, byName: map[string]*uvStore{}, lkBy: map[string]*uvLink{}, ids: map[string][]string{}}
	bad := func(t string) error { return fmt.Errorf("bad schema token %q", t) }
	for _, t := range tokens {
		f := strings.Split(t, ":")
		switch f[0] {
		case "st":
			if len(f) != 7 {
				return nil, bad(t)
			}
			st := &uvStore{name: f[1], etype: f[2], parent: f[3], ext: f[4] == "1", path: uvPath(f[5]), delegate: f[6] == "1",
				syms: map[string]boltz.EntitySymbol{}}
			if st.parent == "-" {
				st.parent = ""
			}
			if _, dup := sc.byName[st.name]; dup || len(st.path) == 0 {
				return nil, bad(t)
			}
			if st.parent != "" {
				p, ok := sc.byName[st.parent]
				if !ok || p.par != nil {
					return nil, bad(t) // parents first, one level of layering
				}
				st.par = p
				st.etype = p.etype
				p.children = append(p.children, st)
			}
			sc.stores = append(sc.stores, st)
			sc.byName[st.name] = st
		case "f":
			if len(f) != 8 || (f[6] != "s" && f[6] != "l") {
				return nil, bad(t)
			}
			fd := &uvField{store: f[1], sym: f[2], key: f[3], prefix: uvPath(f[4]), chk: f[5], kind: f[6][0], linked: f[7]}
			if fd.linked == "-" {
				fd.linked = ""
			}
			if fd.kind == 'l' && (fd.key != fd.sym || len(fd.prefix) != 0 || fd.linked != "") {
				return nil, bad(t) // AddSetSymbol has neither key nor prefix
			}
			sc.fields = append(sc.fields, fd)
		case "bk":
			if len(f) != 4 {
				return nil, bad(t)
			}
			sc.backs = append(sc.backs, &uvBack{store: f[1], sym: f[2], referrer: f[3]})
		case "ux":
			if len(f) != 4 {
				return nil, bad(t)
			}
			sc.cons = append(sc.cons, &uvCons{kind: "ux", store: f[1], sym: f[2], nullable: f[3] == "1"})
		case "sx":
			if len(f) != 3 {
				return nil, bad(t)
			}
			sc.cons = append(sc.cons, &uvCons{kind: "sx", store: f[1], sym: f[2]})
		case "fi":
			if len(f) != 7 {
				return nil, bad(t)
			}
			sc.cons = append(sc.cons, &uvCons{kind: "fi", store: f[1], sym: f[2], nullable: f[3] == "1", cascade: f[4] == "1", target: f[5], back: f[6]})
		case "fc":
			if len(f) != 6 {
				return nil, bad(t)
			}
			sc.cons = append(sc.cons, &uvCons{kind: "fc", store: f[1], sym: f[2], nullable: f[3] == "1", cascade: f[4] == "d", target: f[5]})
		case "lk":
			if len(f) != 11 {
				return nil, bad(t)
			}
			l := &uvLink{name: f[1], rc: f[2] == "r"}
			l.ends[0] = uvEnd{store: f[3], sym: f[4], key: f[5], prefix: uvPath(f[6])}
			l.ends[1] = uvEnd{store: f[7], sym: f[8], key: f[9], prefix: uvPath(f[10])}
			if _, dup := sc.lkBy[l.name]; dup {
				return nil, bad(t)
			}
			sc.links = append(sc.links, l)
			sc.lkBy[l.name] = l
		case "sy":
			if len(f) != 2 {
				return nil, bad(t)
			}
			sc.cons = append(sc.cons, &uvCons{kind: "sy", store: f[1]})
		case "ids":
			if len(f) != 3 {
				return nil, bad(t)
			}
			for _, h := range strings.Split(f[2], ",") {
				if h != "" {
					sc.ids[f[1]] = append(sc.ids[f[1]], fromWire(h))
				}
			}
		case "cx":
			sc.reuse = len(f) > 1 && f[1] == "1"
		default:
			return nil, bad(t)
		}
	}
	return sc, sc.validate()
}

// validate: every reference resolves, names are unique per family, buckets of one family do not collide or nest.
// (A shrunk schema that dropped something still referenced is answered with `bad-schema`.)
func (sc *uvSchema) validate() error {
	if len(sc.stores) == 0 {
		return errors.New("no store")
	}
	famSyms := map[string]map[string]bool{}
	declare := func(store, sym string) error {
		st, ok := sc.byName[store]
		if !ok {
			return fmt.Errorf("unknown store %s", store)
		}
		r := st.root().name
		if famSyms[r] == nil {
			famSyms[r] = map[string]bool{}
		}
		if sym == "" || sym == "id" || famSyms[r][sym] {
			return fmt.Errorf("symbol %s.%s declared twice in its family", store, sym)
		}
		famSyms[r][sym] = true
		return nil
	}
	has := map[string]byte{} // store.sym -> kind: 's' scalar, 'l' list, 'b' back-ref, 'm' link end
	for _, f := range sc.fields {
		if err := declare(f.store, f.sym); err != nil {
			return err
		}
		if f.linked != "" && sc.byName[f.linked] == nil {
			return fmt.Errorf("unknown linked store %s", f.linked)
		}
		has[f.store+"."+f.sym] = f.kind
		st := sc.byName[f.store]
		st.fields = append(st.fields, f)
	}
	for _, b := range sc.backs {
		if err := declare(b.store, b.sym); err != nil {
			return err
		}
		if sc.byName[b.referrer] == nil {
			return fmt.Errorf("unknown referrer store %s", b.referrer)
		}
		has[b.store+"."+b.sym] = 'b'
	}
	for _, l := range sc.links {
		for i := 0; i < 2; i++ {
			if i == 1 && l.selfSame() {
				continue
			}
			if err := declare(l.ends[i].store, l.ends[i].sym); err != nil {
				return err
			}
			has[l.ends[i].store+"."+l.ends[i].sym] = 'm'
			if !l.rc {
				st := sc.byName[l.ends[i].store]
				st.linkSyms = append(st.linkSyms, l.ends[i].sym)
			}
		}
		if l.rc && l.selfSame() {
			return errors.New("ref-counted collection over one symbol")
		}
	}
	for _, c := range sc.cons {
		if c.kind == "sy" {
			st := sc.byName[c.store]
			if st == nil || st.par != nil || st.sys {
				return errors.New("system entity constraint on an unknown / child store, or twice")
			}
			st.sys = true
			continue
		}
		k, ok := has[c.store+"."+c.sym]
		if !ok {
			return fmt.Errorf("constraint on undeclared symbol %s.%s", c.store, c.sym)
		}
		switch c.kind {
		case "ux":
			if k != 's' {
				return errors.New("unique index on a non-scalar")
			}
		case "sx":
			if k != 'l' {
				return errors.New("set index on a non-list")
			}
		case "fi":
			if k != 's' || has[c.target+"."+c.back] != 'b' {
				return errors.New("fk index without back-reference symbol")
			}
		case "fc":
			if k != 's' {
				return errors.New("fk constraint on a non-scalar")
			}
			var fd *uvField
			for _, f := range sc.fields {
				if f.store == c.store && f.sym == c.sym {
					fd = f
				}
			}
			if fd == nil || fd.linked != c.target {
				return errors.New("fk constraint target differs from the symbol's linked store")
			}
		}
		if (c.kind == "fi" || c.kind == "fc") && sc.byName[c.target] == nil {
			return fmt.Errorf("unknown target store %s", c.target)
		}
	}
	// bucket layout of every family: paths inside the root entity bucket must be pairwise different and no
	// leaf-like location (field key, list bucket) may be a prefix of another location
	for _, st := range sc.stores {
		if st.par != nil {
			continue
		}
		var leaves, dirs [][]string
		area := func(s *uvStore) []string {
			if s.par == nil {
				return nil
			}
			return s.path
		}
		fam := append([]*uvStore{st}, st.children...)
		for _, s := range fam {
			if s.par != nil {
				dirs = append(dirs, s.path)
			}
			for _, f := range s.fields {
				leaves = append(leaves, uvJoin(area(s), f.prefix, []string{f.key}))
			}
		}
		for _, b := range sc.backs {
			if s := sc.byName[b.store]; s.root() == st {
				leaves = append(leaves, uvJoin(area(s), nil, []string{b.sym}))
			}
		}
		for _, l := range sc.links {
			for i := 0; i < 2; i++ {
				if i == 1 && l.selfSame() {
					continue
				}
				if s := sc.byName[l.ends[i].store]; s.root() == st {
					leaves = append(leaves, uvJoin(area(s), l.ends[i].prefix, []string{l.ends[i].key}))
				}
			}
		}
		for i, a := range leaves {
			for j, b := range leaves {
				if i != j && uvIsPrefix(a, b) {
					return fmt.Errorf("bucket locations collide in family %s: %v / %v", st.name, a, b)
				}
			}
			for _, d := range dirs {
				if uvIsPrefix(a, d) {
					return fmt.Errorf("a field location is a prefix of a child data path in family %s", st.name)
				}
			}
		}
		for i, a := range dirs {
			for j, b := range dirs {
				if i != j && uvIsPrefix(a, b) {
					return fmt.Errorf("child data paths nest in family %s", st.name)
				}
			}
		}
	}
	return nil
}

func uvJoin(parts ...[]string) []string {
	var out []string
	for _, p := range parts {
		out = append(out, p...)
	}
	return out
}

func uvIsPrefix(a, b []string) bool {
	if len(a) > len(b) {
		return false
	}
	for i := range a {
		if a[i] != b[i] {
			return false
		}
	}
	return true
}

// ---------------------------------------------------------------------------------------------- entities

type uvEnt struct {
	Id    string
	Type  string
	S     map[string]*string  // scalar fields by symbol name (present = to be written)
	L     map[string][]string // string-list fields by symbol name
	Links map[string][]string // link fields to be written through SetLinkedIds
	Sys   bool                // asks to be a system entity (written on create only, like BaseExtEntity.CreateBaseValues)
}

func (e *uvEnt) GetId() string         { return e.Id }
func (e *uvEnt) SetId(id string)       { e.Id = id }
func (e *uvEnt) GetEntityType() string { return e.Type }

func uvNewEnt(typ string) *uvEnt {
	return &uvEnt{Type: typ, S: map[string]*string{}, L: map[string][]string{}, Links: map[string][]string{}}
}

// the entity strategy of one store.  A child store's strategy persists the parent's fields through
// PersistContext.GetParentContext (the way boltz/manager_store_test.go does), then its own; the caller-side
// names of the fields reach the field checker through PersistContext.WithFieldOverrides.
type uvStrategy struct{ st *uvStore }

func (s *uvStrategy) NewEntity() *uvEnt { return uvNewEnt(s.st.etype) }

func (s *uvStrategy) FillEntity(e *uvEnt, bucket *boltz.TypedBucket) {
	if s.st.par != nil {
		_, err := s.st.par.bs.LoadEntity(bucket.Tx(), e.Id, e)
		bucket.SetError(err)
		e.Type = s.st.etype
	}
	if bucket.Bucket == nil { // extended store, entity without extension data
		return
	}
	if s.st.sys {
		e.Sys = bucket.GetBoolWithDefault(boltz.FieldIsSystemEntity, false)
	}
	for _, f := range s.st.fields {
		b := bucket.GetPath(f.prefix...)
		if b == nil {
			continue
		}
		if f.kind == 's' {
			e.S[f.sym] = b.GetString(f.key)
		} else {
			e.L[f.sym] = b.GetStringList(f.key)
		}
	}
}

func (s *uvStrategy) PersistEntity(e *uvEnt, ctx *boltz.PersistContext) {
	if s.st.par != nil {
		s.st.par.bs.GetEntityStrategy().PersistEntity(e, ctx.GetParentContext())
	}
	ov := map[string]string{}
	for _, f := range s.st.fields {
		if f.chk != f.key {
			ov[f.key] = f.chk
		}
	}
	if len(ov) > 0 {
		ctx.WithFieldOverrides(ov)
	}
	if s.st.sys && ctx.IsCreate && e.Sys {
		ctx.Bucket.SetBool(boltz.FieldIsSystemEntity, true, nil)
	}
	for _, f := range s.st.fields {
		if f.kind == 's' {
			v, ok := e.S[f.sym]
			if !ok {
				continue
			}
			b := ctx.Bucket
			if len(f.prefix) > 0 {
				if !ctx.ProceedWithSet(f.key) {
					continue
				}
				b = ctx.Bucket.GetOrCreatePath(f.prefix...)
				if b.HasError() {
					ctx.Bucket.SetError(b.GetError())
					continue
				}
			}
			b.SetStringP(f.key, v, ctx.FieldChecker)
		} else if v, ok := e.L[f.sym]; ok {
			ctx.SetStringList(f.key, v)
		}
	}
	for _, name := range s.st.linkSyms {
		if ids, ok := e.Links[name]; ok {
			ctx.SetLinkedIds(name, append([]string{}, ids...))
		}
	}
}

// ---------------------------------------------------------------------------------------------- wiring

func (sc *uvSchema) wire() {
	for _, st := range sc.stores {
		st := st
		def := boltz.StoreDefinition[*uvEnt]{
			EntityStrategy: &uvStrategy{st: st},
			BasePath:       append(make([]string, 0, len(st.path)), st.path...),
			EntityNotFoundF: func(id string) error {
				return boltz.NewNotFoundError(boltz.GetSingularEntityType(st.etype), "id", id)
			},
		}
		if st.par == nil {
			def.EntityType = st.etype
		} else {
			def.Parent = st.par.bs
			def.ParentMapper = func(e boltz.Entity) boltz.Entity { return e }
		}
		bs := boltz.NewBaseStore(def)
		if st.ext {
			bs = bs.Extended()
		}
		bs.InitImpl(bs)
		st.bs = bs
		if st.par != nil {
			st.par.bs.RegisterChildStoreStrategy(&boltz.ChildStoreUpdateHandler[*uvEnt, *uvEnt]{
				Store: bs,
				Mapper: func(ctx boltz.MutateContext, parent *uvEnt) (*uvEnt, bool) {
					if !st.delegate || !bs.IsEntityPresent(ctx.Tx(), parent.Id) {
						return nil, false
					}
					child, found, _ := bs.FindById(ctx.Tx(), parent.Id)
					if !found || child == nil {
						return nil, false
					}
					// the stored child entity with the shared fields replaced by the caller's
					for k, v := range parent.S {
						child.S[k] = v
					}
					for k, v := range parent.L {
						child.L[k] = v
					}
					child.Links = map[string][]string{}
					for k, v := range parent.Links {
						child.Links[k] = v
					}
					return child, true
				},
			})
		}
	}
	declare := func(st *uvStore) {
		if st.par == nil {
			st.bs.AddIdSymbol("id", ast.NodeTypeString)
		}
		if st.sys {
			st.bs.AddSymbol(boltz.FieldIsSystemEntity, ast.NodeTypeBool)
		}
		for _, f := range st.fields {
			switch {
			case f.kind == 'l':
				st.syms[f.sym] = st.bs.AddSetSymbol(f.sym, ast.NodeTypeString)
			case f.linked != "":
				st.syms[f.sym] = st.bs.AddFkSymbolWithKey(f.sym, f.key, sc.byName[f.linked].bs, f.prefix...)
			default:
				st.syms[f.sym] = st.bs.AddSymbolWithKey(f.sym, ast.NodeTypeString, f.key, f.prefix...)
			}
		}
		for _, b := range sc.backs {
			if b.store == st.name {
				st.syms[b.sym] = st.bs.AddFkSetSymbol(b.sym, sc.byName[b.referrer].bs)
			}
		}
		for _, l := range sc.links {
			for i := 0; i < 2; i++ {
				e := l.ends[i]
				if e.store != st.name || (i == 1 && l.selfSame()) {
					continue
				}
				other := sc.byName[l.ends[1-i].store].bs
				if e.key == e.sym && len(e.prefix) == 0 {
					st.syms[e.sym] = st.bs.AddFkSetSymbol(e.sym, other)
				} else {
					st.syms[e.sym] = st.bs.AddFkSymbolWithKey(e.sym, e.key, other, e.prefix...)
				}
			}
		}
	}
	for _, st := range sc.stores {
		if st.par == nil {
			declare(st)
		}
	}
	for _, st := range sc.stores {
		if st.par != nil {
			st.par.bs.GrantSymbols(st.bs)
			declare(st)
		}
	}
	for _, c := range sc.cons {
		st := sc.byName[c.store]
		sym := st.syms[c.sym]
		switch c.kind {
		case "sy":
			st.bs.AddConstraint(boltz.NewSystemEntityEnforcementConstraint(st.bs))
		case "ux":
			if c.nullable {
				st.bs.AddNullableUniqueIndex(sym)
			} else {
				st.bs.AddUniqueIndex(sym)
			}
		case "sx":
			st.bs.AddSetIndex(sym.(boltz.EntitySetSymbol))
		case "fi":
			back := sc.byName[c.target].syms[c.back].(boltz.EntitySetSymbol)
			switch {
			case c.cascade:
				st.bs.AddFkIndexCascadeDelete(sym, back)
			case c.nullable:
				st.bs.AddNullableFkIndex(sym, back)
			default:
				st.bs.AddFkIndex(sym, back)
			}
		case "fc":
			cascade := boltz.CascadeType(boltz.CascadeNone)
			if c.cascade {
				cascade = boltz.CascadeDelete
			}
			st.bs.AddFkConstraint(sym, c.nullable, cascade)
		}
	}
	for _, l := range sc.links {
		a, b := sc.byName[l.ends[0].store], sc.byName[l.ends[1].store]
		sa, sb := a.syms[l.ends[0].sym], b.syms[l.ends[1].sym]
		if l.rc {
			l.rcc[0] = a.bs.AddRefCountedLinkCollection(sa, sb)
			l.rcc[1] = b.bs.AddRefCountedLinkCollection(sb, sa)
		} else if l.selfSame() {
			l.plain[0] = a.bs.AddLinkCollection(sa, sa)
			l.plain[1] = l.plain[0]
		} else {
			l.plain[0] = a.bs.AddLinkCollection(sa, sb)
			l.plain[1] = b.bs.AddLinkCollection(sb, sa)
		}
	}
}

// ---------------------------------------------------------------------------------------------- operations

// uvBulkId: the ids of a bulk creation (`blk`), z0001 z0002 ...
func uvBulkId(i int) string { return fmt.Sprintf("z%04d", i) }

func uvList(s string) []string {
	s = strings.TrimSuffix(strings.TrimPrefix(s, "["), "]")
	if s == "" {
		return nil
	}
	if strings.HasPrefix(s, "*") { // *<n>: the first n bulk ids
		n, _ := strconv.Atoi(s[1:])
		var out []string
		for i := 1; i <= n; i++ {
			out = append(out, uvBulkId(i))
		}
		return out
	}
	var out []string
	for _, h := range strings.Split(s, "+") {
		out = append(out, fromWire(h))
	}
	return out
}

func (sc *uvSchema) entity(st *uvStore, id string, assigns string) *uvEnt {
	e := uvNewEnt(st.etype)
	e.Id = id
	if assigns == "-" || assigns == "" {
		return e
	}
	kinds := map[string]byte{}
	for s := st; s != nil; s = s.par {
		for _, f := range s.fields {
			kinds[f.sym] = f.kind
		}
		for _, n := range s.linkSyms {
			kinds["@"+n] = 'm'
		}
	}
	for _, a := range strings.Split(assigns, ",") {
		eq := strings.Index(a, "=")
		if eq < 0 {
			continue
		}
		name, val := a[:eq], a[eq+1:]
		if name == "!sys" {
			e.Sys = val == "1"
			continue
		}
		switch kinds[name] {
		case 's':
			if val == "~" {
				e.S[name] = nil
			} else if val == "#" { // the entity's own id
				v := id
				e.S[name] = &v
			} else {
				v := fromWire(val)
				e.S[name] = &v
			}
		case 'l':
			e.L[name] = uvList(val)
		case 'm':
			e.Links[name[1:]] = uvList(val)
		}
		// a field the (shrunk) schema no longer has is ignored
	}
	return e
}

var errUvSkip = errors.New("universe: operation names something the schema does not have")

func (sc *uvSchema) apply(ctx boltz.MutateContext, op string) error {
	f := strings.Split(op, ":")
	tx := ctx.Tx()
	switch f[0] {
	case "c", "u", "p", "d", "w", "blk":
		st := sc.byName[f[1]]
		if st == nil {
			return errUvSkip
		}
		switch f[0] {
		case "blk": // blk:<store>:<n>:<assigns>  n creations with the bulk ids
			n, _ := strconv.Atoi(f[2])
			for i := 1; i <= n; i++ {
				if err := st.bs.Create(ctx, sc.entity(st, uvBulkId(i), f[3])); err != nil {
					return err
				}
			}
			return nil
		case "c":
			return st.bs.Create(ctx, sc.entity(st, fromWire(f[2]), f[3]))
		case "u":
			return st.bs.Update(ctx, sc.entity(st, fromWire(f[2]), f[3]), nil)
		case "p":
			chk := boltz.MapFieldChecker{}
			if f[3] != "-" {
				for _, n := range strings.Split(f[3], "+") {
					chk[n] = struct{}{}
				}
			}
			return st.bs.Update(ctx, sc.entity(st, fromWire(f[2]), f[4]), chk)
		case "d":
			return st.bs.DeleteById(ctx, fromWire(f[2]))
		default:
			return st.bs.DeleteWhere(ctx, fromWire(f[2]))
		}
	}
	l := sc.lkBy[f[1]]
	if l == nil {
		return errUvSkip
	}
	sd := 0
	if f[2] == "b" {
		sd = 1
	}
	id := fromWire(f[3])
	if l.rc {
		c := l.rcc[sd]
		switch f[0] {
		case "inc":
			_, err := c.IncrementLinkCount(tx, []byte(id), []byte(fromWire(f[4])))
			return err
		case "dec":
			_, err := c.DecrementLinkCount(tx, []byte(id), []byte(fromWire(f[4])))
			return err
		case "set":
			n, _ := strconv.Atoi(f[5])
			_, _, err := c.SetLinkCount(tx, []byte(id), []byte(fromWire(f[4])), n)
			return err
		}
		return errUvSkip
	}
	c := l.plain[sd]
	switch f[0] {
	case "al":
		return c.AddLinks(tx, id, uvList(f[4])...)
	case "rl":
		return c.RemoveLinks(tx, id, uvList(f[4])...)
	case "sl":
		return c.SetLinks(tx, id, uvList(f[4]))
	case "a1":
		_, err := c.AddLink(tx, []byte(id), []byte(fromWire(f[4])))
		return err
	case "r1":
		_, err := c.RemoveLink(tx, []byte(id), []byte(fromWire(f[4])))
		return err
	}
	return errUvSkip
}

func uvErrStr(err error) string {
	if err == nil {
		return "ok"
	}
	if errors.Is(err, errUvSkip) {
		return "skip"
	}
	var dup *boltz.UniqueIndexDuplicateError
	if errors.As(err, &dup) {
		return "dup"
	}
	if boltz.IsErrNotFoundErr(err) {
		return "notfound"
	}
	var ref *boltz.ReferenceExistsError
	if errors.As(err, &ref) {
		return "refexists"
	}
	msg := err.Error()
	switch {
	case strings.Contains(msg, "blank id"):
		return "blank"
	case strings.Contains(msg, "already exists with id"):
		return "exists"
	case strings.Contains(msg, "does not allow null or empty values"):
		return "null"
	case strings.Contains(msg, "not found with id"):
		return "missing"
	case strings.Contains(msg, "unexpected mismatch"):
		return "rcmismatch"
	case strings.Contains(msg, "in a non-system context"):
		return "system"
	}
	if os.Getenv("VERIF_UNIVERSE_DEBUG") != "" {
		return "other/" + toWire(msg)
	}
	return "other"
}

// ---------------------------------------------------------------------------------------------- dump

type uvDumpVisitor struct{ toks []string }

func uvHexPath(path string, key []byte) string {
	var segs []string
	for _, s := range strings.Split(path, "/") {
		if s != "" {
			segs = append(segs, toWire(s))
		}
	}
	segs = append(segs, toWire(string(key)))
	return strings.Join(segs, ".")
}

func (v *uvDumpVisitor) VisitBucket(path string, key []byte, _ *bbolt.Bucket) bool {
	v.toks = append(v.toks, "b"+uvHexPath(path, key))
	return true
}

func (v *uvDumpVisitor) VisitKeyValue(path string, key, value []byte) bool {
	v.toks = append(v.toks, "k"+uvHexPath(path, key)+"="+toWire(string(value)))
	return true
}

func uvDump(db boltz.Db) string {
	v := &uvDumpVisitor{}
	_ = db.View(func(tx *bbolt.Tx) error {
		boltz.Traverse(tx, "", v)
		return nil
	})
	if len(v.toks) == 0 {
		return "-"
	}
	return strings.Join(v.toks, " ")
}

type uvHolder struct{ err error }

func (h *uvHolder) GetError() error { return h.err }
func (h *uvHolder) SetError(err error) bool {
	if err != nil && h.err == nil {
		h.err = err
	}
	return h.err != nil
}
func (h *uvHolder) HasError() bool { return h.err != nil }

// ---------------------------------------------------------------------------------------------- executor

func uvSplitCase(line string) (schema []string, txs []string, ok bool) {
	if !strings.HasPrefix(line, "U @S ") {
		return nil, nil, false
	}
	rest := line[len("U @S "):]
	at := strings.Index(rest, " @H")
	if at < 0 {
		return nil, nil, false
	}
	schema = strings.Fields(rest[:at])
	txs = strings.Fields(rest[at+3:])
	return schema, txs, true
}

func uvExec(line string) string {
	tokens, txs, ok := uvSplitCase(line)
	if !ok {
		return "bad-case"
	}
	sc, err := uvParseSchema(tokens)
	if err != nil {
		return "bad-schema " + toWire(err.Error())
	}
	// a cascade that never ends must not take a gigabyte of stack before the runtime gives up
	debug.SetMaxStack(16 << 20)
	dir, err := os.MkdirTemp("/dev/shm", "verif-*")
	if err != nil {
		dir, err = os.MkdirTemp("", "verif-*")
	}
	if err != nil {
		panic(err)
	}
	defer os.RemoveAll(dir)
	db, err := boltz.Open(filepath.Join(dir, "u.db"), sc.stores[0].path[0])
	if err != nil {
		panic(err)
	}
	defer func() { _ = db.Close() }()
	sc.wire()
	err = db.Update(nil, func(ctx boltz.MutateContext) error {
		h := &uvHolder{}
		for _, st := range sc.stores {
			st.bs.InitializeIndexes(ctx.Tx(), h)
		}
		return h.err
	})
	if err != nil {
		return "init-failed " + toWire(err.Error())
	}
	var shared boltz.MutateContext
	if sc.reuse {
		shared = boltz.NewMutateContext(context.Background())
	}
	var results, states []string
	for k, txs := range txs {
		ops := strings.Split(txs, ";")
		var res []string
		ctx := shared
		if ctx == nil {
			ctx = boltz.NewMutateContext(context.Background())
		}
		err := db.Update(ctx, func(ctx boltz.MutateContext) error {
			for _, op := range ops {
				e := sc.apply(ctx, op)
				res = append(res, uvErrStr(e))
				if e != nil && !errors.Is(e, errUvSkip) {
					return e
				}
			}
			return nil
		})
		flag := "c"
		if err != nil {
			flag = "a"
		}
		results = append(results, fmt.Sprintf("%d:%s:%s", k, flag, strings.Join(res, ",")))
		if err != nil {
			continue
		}
		before := uvDump(db)
		var reports []string
		for _, st := range sc.stores {
			st := st
			cerr := db.Update(nil, func(ctx boltz.MutateContext) error {
				return st.bs.CheckIntegrity(ctx, false, func(err error, fixed bool) {
					reports = append(reports, st.name+": "+err.Error())
				})
			})
			if cerr != nil {
				reports = append(reports, st.name+": CheckIntegrity failed: "+cerr.Error())
			}
		}
		same := "same"
		if uvDump(db) != before {
			same = "changed"
		}
		first := "-"
		if len(reports) > 0 {
			first = toWire(reports[0])
		}
		states = append(states, fmt.Sprintf("S%d I%d:%s:%s @D %s", k, len(reports), same, first, before))
	}
	out := "R " + strings.Join(results, " ")
	if len(states) > 0 {
		out += " ;; " + strings.Join(states, " ;; ")
	}
	return out
}

// ---------------------------------------------------------------------------------------------- generator
//
// The generator keeps a BELIEF about the database — a small reference model of what the API accepts (ids per
// store, field values, links; uniqueness, non-null, reference existence, restrict / cascade on delete) — only
// to steer its choices: most operations are drawn until the belief says they will be accepted, about one in
// nine is kept whatever the belief says (operations expected to be refused), and a transaction the belief
// expects to abort is forgotten.  Nothing depends on the belief being right: the executor reports what the
// real stores did, and the oracle judges the real dumps.

type uvGenStore struct {
	st       *uvStore
	scalars  []*uvField
	lists    []*uvField
	fks      []*uvCons // fk constraints / indexes declared on this store
	uniq     map[string]*uvCons
	children []*uvGenStore
	parent   *uvGenStore
	fam      int
}

type uvBEnt struct {
	S     map[string]string // scalar by symbol name ("" = nil or empty)
	L     map[string][]string
	child map[string]bool
	lk    map[string]map[string]bool // <link>/<side> -> linked ids
}

func (e *uvBEnt) clone() *uvBEnt {
	n := &uvBEnt{S: map[string]string{}, L: map[string][]string{}, child: map[string]bool{}, lk: map[string]map[string]bool{}}
	for k, v := range e.S {
		n.S[k] = v
	}
	for k, v := range e.L {
		n.L[k] = v
	}
	for k, v := range e.child {
		n.child[k] = v
	}
	for k, v := range e.lk {
		m := map[string]bool{}
		for a, b := range v {
			m[a] = b
		}
		n.lk[k] = m
	}
	return n
}

type uvBelief struct{ ents []map[string]*uvBEnt }

func (b *uvBelief) clone() *uvBelief {
	n := &uvBelief{}
	for _, m := range b.ents {
		c := map[string]*uvBEnt{}
		for id, e := range m {
			c[id] = e.clone()
		}
		n.ents = append(n.ents, c)
	}
	return n
}

type uvAssign struct {
	sym  string
	kind byte // 's' 'l' 'm'
	nilv bool
	val  string
	list []string
	chk  string // the name a field checker has to list for the field to be written
}

type uvGen1 struct {
	r      *rng
	tokens []string
	stores []*uvGenStore
	by     map[string]*uvGenStore
	links  []*uvLink
	allFk  []*uvCons
	pools  [][]string // id pool per family
	b      *uvBelief
}

var (
	uvBasePaths  = [][]string{{"u"}, {"u"}, {"u", "v"}, {"t", "u", "v"}, {"t", "u", "v", "w"}, {"w"}, {"u", "v", "w"}}
	uvChildSolo  = [][]string{{"ext"}, {"ext2"}, {"m", "n"}, {"x", "a"}}
	uvChildPairs = [][2][]string{{{"ext"}, {"ext2"}}, {{"x", "a"}, {"x", "b"}}, {{"ext"}, {"m", "n"}}, {{"m", "n"}, {"m", "o"}}}
	uvPrefixes   = [][]string{{"p"}, {"p", "q"}, {"refs"}}
	uvValues     = []string{"v1", "v2", "v11", "v3", "v4"}
	uvRoles      = []string{"r1", "r2", "r11", "r3"}
	uvShared     = []string{"e1", "e2", "e11"}
)

func (g *uvGen1) emit(t string) { g.tokens = append(g.tokens, t) }

// a scalar symbol in one of the naming variants: name = key = checker name | other key | path prefix | other
// caller-side name | all different
func (g *uvGen1) naming(sym string) (key string, prefix []string, chk string) {
	key, chk = sym, sym
	switch g.r.intn(6) {
	case 1:
		key, chk = "K"+sym, "K"+sym
	case 2:
		prefix = pick(g.r, uvPrefixes)
	case 3:
		chk = "C" + sym
	case 4:
		key, chk, prefix = "K"+sym, "C"+sym, pick(g.r, uvPrefixes)
	}
	return
}

func (g *uvGen1) addScalar(gs *uvGenStore, sym, linked string) *uvField {
	key, prefix, chk := g.naming(sym)
	f := &uvField{store: gs.st.name, sym: sym, key: key, prefix: prefix, chk: chk, kind: 's', linked: linked}
	gs.scalars = append(gs.scalars, f)
	l := linked
	if l == "" {
		l = "-"
	}
	g.emit(fmt.Sprintf("f:%s:%s:%s:%s:%s:s:%s", f.store, f.sym, f.key, uvPathS(f.prefix), f.chk, l))
	return f
}

func (g *uvGen1) addList(gs *uvGenStore, sym string) *uvField {
	chk := sym
	if g.r.chance(1, 3) {
		chk = "C" + sym
	}
	f := &uvField{store: gs.st.name, sym: sym, key: sym, chk: chk, kind: 'l'}
	gs.lists = append(gs.lists, f)
	g.emit(fmt.Sprintf("f:%s:%s:%s:-:%s:l:-", f.store, f.sym, f.key, f.chk))
	return f
}

// symbol names are letters only (ZitiQL identifiers have no digits)
func uvLetter(n int) string { return string(rune('a' + (n-1)%26)) }

func uvB(b bool) string {
	if b {
		return "1"
	}
	return "0"
}

func (r *rng) shuffle(xs []string) {
	for i := len(xs) - 1; i > 0; i-- {
		j := r.intn(i + 1)
		xs[i], xs[j] = xs[j], xs[i]
	}
}

func (g *uvGen1) genSchema() {
	r := g.r
	nRoots := 2 + r.intn(2)
	etypes := []string{"alphas", "betas", "gammas"}
	letters := []string{"A", "B", "C"}
	var cons []string
	var roots []*uvGenStore
	for k := 0; k < nRoots; k++ {
		root := &uvGenStore{st: &uvStore{name: letters[k], etype: etypes[k], path: pick(r, uvBasePaths)}, fam: k, uniq: map[string]*uvCons{}}
		roots = append(roots, root)
		g.stores = append(g.stores, root)
		g.by[root.st.name] = root
		g.emit(fmt.Sprintf("st:%s:%s:-:0:%s:0", root.st.name, root.st.etype, uvPathS(root.st.path)))
		nc := []int{0, 0, 0, 1, 1, 1, 1, 2, 2, 2}[r.intn(10)]
		var paths [][]string
		if nc == 1 {
			paths = [][]string{pick(r, uvChildSolo)}
		} else if nc == 2 {
			p := pick(r, uvChildPairs)
			paths = [][]string{p[0], p[1]}
			if r.chance(1, 2) {
				paths[0], paths[1] = paths[1], paths[0]
			}
		}
		for i, p := range paths {
			ch := &uvGenStore{st: &uvStore{name: letters[k] + strconv.Itoa(i+1), etype: etypes[k], parent: letters[k], path: p,
				ext: r.chance(1, 2), delegate: r.chance(3, 5)}, fam: k, parent: root, uniq: map[string]*uvCons{}}
			root.children = append(root.children, ch)
			g.stores = append(g.stores, ch)
			g.by[ch.st.name] = ch
			g.emit(fmt.Sprintf("st:%s:%s:%s:%s:%s:%s", ch.st.name, ch.st.etype, ch.st.parent, uvB(ch.st.ext), uvPathS(p), uvB(ch.st.delegate)))
		}
	}
	// fields and indexes; symbol names are numbered per family, so different families reuse the same names
	famN := map[int]int{}
	for _, root := range roots {
		n := 0
		next := func(p string) string { n++; return p + uvLetter(n) }
		for _, gs := range append([]*uvGenStore{root}, root.children...) {
			isRoot := gs.parent == nil
			nu := 1
			if isRoot && r.chance(1, 2) {
				nu = 2
			}
			if !isRoot && r.chance(2, 5) {
				nu = 0
			}
			for i := 0; i < nu; i++ {
				f := g.addScalar(gs, next("s"), "")
				nullable := r.chance(1, 2) || i > 0
				gs.uniq[f.sym] = &uvCons{kind: "ux", store: gs.st.name, sym: f.sym, nullable: nullable}
				cons = append(cons, fmt.Sprintf("ux:%s:%s:%s", gs.st.name, f.sym, uvB(nullable)))
			}
			if r.chance(2, 5) {
				g.addScalar(gs, next("s"), "")
			}
			if (isRoot && r.chance(7, 10)) || (!isRoot && r.chance(2, 5)) {
				f := g.addList(gs, next("l"))
				cons = append(cons, fmt.Sprintf("sx:%s:%s", gs.st.name, f.sym))
			}
			if r.chance(1, 7) {
				g.addList(gs, next("l"))
			}
		}
	}
	// foreign keys between any two stores (self references and cycles included); a non-nullable reference only
	// points backwards in store order or at the store itself, so that entities can be created at all
	nfk := 1 + r.intn(4)
	for i := 0; i < nfk; i++ {
		si := r.intn(len(g.stores))
		ti := r.intn(len(g.stores))
		if r.chance(1, 4) {
			ti = si
		}
		src, tgt := g.stores[si], g.stores[ti]
		kind := r.intn(100)
		famN[src.fam]++
		sym := "k" + uvLetter(famN[src.fam])
		canNonNull := ti <= si
		f := g.addScalar(src, sym, tgt.st.name)
		var c *uvCons
		switch {
		case kind < 40: // fk index, restrict
			nullable := !(canNonNull && r.chance(1, 4))
			famN[tgt.fam]++
			back := "b" + uvLetter(famN[tgt.fam])
			g.emit(fmt.Sprintf("bk:%s:%s:%s", tgt.st.name, back, src.st.name))
			c = &uvCons{kind: "fi", store: src.st.name, sym: f.sym, nullable: nullable, target: tgt.st.name, back: back}
			cons = append(cons, fmt.Sprintf("fi:%s:%s:%s:0:%s:%s", c.store, c.sym, uvB(nullable), c.target, back))
		case kind < 55 && canNonNull: // fk index, cascade delete (never nullable)
			famN[tgt.fam]++
			back := "b" + uvLetter(famN[tgt.fam])
			g.emit(fmt.Sprintf("bk:%s:%s:%s", tgt.st.name, back, src.st.name))
			c = &uvCons{kind: "fi", store: src.st.name, sym: f.sym, cascade: true, target: tgt.st.name, back: back}
			cons = append(cons, fmt.Sprintf("fi:%s:%s:0:1:%s:%s", c.store, c.sym, c.target, back))
		default: // fk constraint, CascadeNone / CascadeDelete
			nullable := !(canNonNull && r.chance(1, 4))
			casc := r.chance(3, 5)
			c = &uvCons{kind: "fc", store: src.st.name, sym: f.sym, nullable: nullable, cascade: casc, target: tgt.st.name}
			cd := "n"
			if casc {
				cd = "d"
			}
			cons = append(cons, fmt.Sprintf("fc:%s:%s:%s:%s:%s", c.store, c.sym, uvB(nullable), cd, c.target))
		}
		src.fks = append(src.fks, c)
		g.allFk = append(g.allFk, c)
	}
	for _, root := range roots {
		if r.chance(1, 3) {
			root.st.sys = true
			cons = append(cons, "sy:"+root.st.name)
		}
	}
	r.shuffle(cons)
	for _, c := range cons {
		g.emit(c)
	}
	// link collections between any two stores
	nl := 1 + r.intn(3)
	for i := 0; i < nl; i++ {
		ai := r.intn(len(g.stores))
		bi := r.intn(len(g.stores))
		if r.chance(1, 5) {
			bi = ai
		}
		a, b := g.stores[ai], g.stores[bi]
		rc := r.chance(2, 5)
		l := &uvLink{name: "L" + strconv.Itoa(i), rc: rc}
		famN[a.fam]++
		symA := "m" + uvLetter(famN[a.fam])
		symB := symA
		if !(ai == bi && !rc && r.chance(1, 2)) {
			famN[b.fam]++
			symB = "m" + uvLetter(famN[b.fam])
		}
		end := func(st *uvGenStore, sym string) uvEnd {
			e := uvEnd{store: st.st.name, sym: sym, key: sym}
			switch r.intn(4) {
			case 1:
				e.key = "K" + sym
			case 2:
				e.prefix = []string{"refs"}
			case 3:
				e.key, e.prefix = "K"+sym, []string{"refs", "deep"}
			}
			return e
		}
		l.ends[0] = end(a, symA)
		if symB == symA && ai == bi {
			l.ends[1] = l.ends[0]
		} else {
			l.ends[1] = end(b, symB)
		}
		g.links = append(g.links, l)
		kind := "p"
		if rc {
			kind = "r"
		}
		g.emit(fmt.Sprintf("lk:%s:%s:%s:%s:%s:%s:%s:%s:%s:%s", l.name, kind, l.ends[0].store, l.ends[0].sym, l.ends[0].key, uvPathS(l.ends[0].prefix),
			l.ends[1].store, l.ends[1].sym, l.ends[1].key, uvPathS(l.ends[1].prefix)))
	}
	// id pools: three ids shared by all families (prefix related), three of the family's own
	g.b = &uvBelief{}
	for k := 0; k < nRoots; k++ {
		own := strings.ToLower(letters[k])
		pool := append(append([]string{}, uvShared...), own+"3", own+"31", own+"4")
		g.pools = append(g.pools, pool)
		g.b.ents = append(g.b.ents, map[string]*uvBEnt{})
		var hx []string
		for _, id := range pool {
			hx = append(hx, toWire(id))
		}
		g.emit(fmt.Sprintf("ids:%s:%s", letters[k], strings.Join(hx, ",")))
	}
	g.emit("cx:" + uvB(r.chance(1, 4)))
}

func (g *uvGen1) rootOf(gs *uvGenStore) *uvGenStore {
	if gs.parent != nil {
		return gs.parent
	}
	return gs
}

func (g *uvGen1) chain(gs *uvGenStore) []*uvGenStore {
	if gs.parent != nil {
		return []*uvGenStore{gs.parent, gs}
	}
	return []*uvGenStore{gs}
}

// ---- belief

func (g *uvGen1) isMember(gs *uvGenStore, id string) bool {
	e := g.b.ents[gs.fam][id]
	return e != nil && (gs.parent == nil || e.child[gs.st.name])
}

func (g *uvGen1) members(gs *uvGenStore) []string {
	var out []string
	for _, id := range g.pools[gs.fam] {
		if g.isMember(gs, id) {
			out = append(out, id)
		}
	}
	return out
}

func (g *uvGen1) anyId(gs *uvGenStore) string { return pick(g.r, g.pools[gs.fam]) }

func (g *uvGen1) memberOr(gs *uvGenStore, pMember int) string {
	m := g.members(gs)
	if len(m) > 0 && g.r.intn(100) < pMember {
		return pick(g.r, m)
	}
	return g.anyId(gs)
}

func uvContains(xs []string, x string) bool {
	for _, y := range xs {
		if x == y {
			return true
		}
	}
	return false
}

// does the belief expect the write to be accepted?  names == nil: every field is written
func (g *uvGen1) believeWrite(gs *uvGenStore, id string, as []uvAssign, names []string, full, create bool) bool {
	fam := g.b.ents[gs.fam]
	old := fam[id]
	if create {
		if id == "" || g.isMember(gs, id) {
			return false
		}
	} else if !g.isMember(gs, id) {
		return false
	}
	ne := &uvBEnt{S: map[string]string{}, L: map[string][]string{}, child: map[string]bool{}, lk: map[string]map[string]bool{}}
	if old != nil {
		ne = old.clone()
	}
	written := func(a uvAssign) bool { return full || uvContains(names, a.chk) }
	changed := map[string]bool{}
	for _, a := range as {
		if !written(a) {
			continue
		}
		switch a.kind {
		case 's':
			if create || ne.S[a.sym] != a.val {
				changed[a.sym] = true
			}
			ne.S[a.sym] = a.val
		case 'l':
			for _, v := range a.list {
				if v == "" {
					return false
				}
			}
			ne.L[a.sym] = a.list
		}
	}
	if gs.parent != nil {
		ne.child[gs.st.name] = true
	}
	memberAfter := func(st *uvGenStore, x string) bool {
		if x == id && st.fam == gs.fam {
			return st.parent == nil || ne.child[st.st.name]
		}
		return g.isMember(st, x)
	}
	for _, s := range g.chain(gs) {
		for sym, u := range s.uniq {
			if !changed[sym] {
				continue
			}
			v := ne.S[sym]
			if v == "" {
				if !u.nullable {
					return false
				}
				continue
			}
			for oid, o := range fam {
				if oid != id && (s.parent == nil || o.child[s.st.name]) && o.S[sym] == v {
					return false
				}
			}
		}
		for _, c := range s.fks {
			if !changed[c.sym] {
				continue
			}
			v := ne.S[c.sym]
			if v == "" {
				if !c.nullable {
					return false
				}
				continue
			}
			if !memberAfter(g.by[c.target], v) {
				return false
			}
		}
	}
	// links written through SetLinkedIds
	type setl struct {
		l    *uvLink
		side int
		ids  []string
	}
	var sets []setl
	for _, a := range as {
		if a.kind != 'm' || !written(a) {
			continue
		}
		for _, l := range g.links {
			for sd := 0; sd < 2; sd++ {
				if l.rc || l.ends[sd].sym != a.sym || g.by[l.ends[sd].store].fam != gs.fam || (sd == 1 && l.selfSame()) {
					continue
				}
				for _, x := range a.list {
					if !memberAfter(g.by[l.ends[1-sd].store], x) {
						return false
					}
				}
				sets = append(sets, setl{l, sd, a.list})
			}
		}
	}
	fam[id] = ne
	for _, s := range sets {
		g.setLinks(s.l, s.side, id, s.ids)
	}
	return true
}

func uvLkKey(l *uvLink, side int) string {
	if l.selfSame() {
		side = 0
	}
	return l.name + "/" + strconv.Itoa(side)
}

func (g *uvGen1) lkSet(l *uvLink, side int, id string) map[string]bool {
	e := g.b.ents[g.by[l.ends[side].store].fam][id]
	if e == nil {
		return map[string]bool{}
	}
	k := uvLkKey(l, side)
	if e.lk[k] == nil {
		e.lk[k] = map[string]bool{}
	}
	return e.lk[k]
}

func (g *uvGen1) link(l *uvLink, side int, id, other string, on bool) {
	if on {
		g.lkSet(l, side, id)[other] = true
		g.lkSet(l, 1-side, other)[id] = true
	} else {
		delete(g.lkSet(l, side, id), other)
		delete(g.lkSet(l, 1-side, other), id)
	}
}

func (g *uvGen1) setLinks(l *uvLink, side int, id string, ids []string) {
	for x := range g.lkSet(l, side, id) {
		if !uvContains(ids, x) {
			g.link(l, side, id, x, false)
		}
	}
	for _, x := range ids {
		g.link(l, side, id, x, true)
	}
}

// DeleteById through any store of the family: restrict / cascade of every store level that holds the id
func (g *uvGen1) believeDelete(gs *uvGenStore, id string, busy map[string]bool) bool {
	root := g.rootOf(gs)
	fam := g.b.ents[root.fam]
	e := fam[id]
	if e == nil {
		return false
	}
	key := root.st.name + "\x00" + id
	nested := busy[key]
	busy[key] = true
	if !nested {
		defer delete(busy, key)
	}
	levels := []*uvGenStore{}
	for _, ch := range root.children {
		if e.child[ch.st.name] || ch.st.ext {
			levels = append(levels, ch)
		}
	}
	levels = append(levels, root)
	for _, lv := range levels {
		if lv.parent != nil && !e.child[lv.st.name] {
			continue
		}
		for _, c := range g.allFk {
			if c.target != lv.st.name {
				continue
			}
			src := g.by[c.store]
			var refs []string
			for _, rid := range g.pools[src.fam] {
				if g.isMember(src, rid) && g.b.ents[src.fam][rid].S[c.sym] == id {
					refs = append(refs, rid)
				}
			}
			if len(refs) == 0 {
				continue
			}
			if !c.cascade {
				return false // restricted (a self reference included)
			}
			for _, rid := range refs {
				rk := g.rootOf(src).st.name + "\x00" + rid
				if busy[rk] || !g.isMember(src, rid) {
					continue
				}
				if !g.believeDelete(src, rid, busy) {
					return false
				}
			}
		}
	}
	if fam[id] == nil {
		return false // a nested cascade removed it: the outer delete finds nothing
	}
	for _, l := range g.links {
		if l.rc {
			continue
		}
		for sd := 0; sd < 2; sd++ {
			if g.by[l.ends[sd].store].fam != root.fam {
				continue
			}
			for x := range g.lkSet(l, sd, id) {
				delete(g.lkSet(l, 1-sd, x), id)
			}
		}
	}
	delete(fam, id)
	return true
}

// ---- operations: every generated operation carries its text and what the belief does with it

type uvGenOp struct {
	text string
	run  func() bool
}

func uvListS(xs []string) string {
	var hx []string
	for _, x := range xs {
		hx = append(hx, toWire(x))
	}
	return "[" + strings.Join(hx, "+") + "]"
}

func uvAssignS(as []uvAssign) string {
	var out []string
	for _, a := range as {
		switch a.kind {
		case 's':
			v := toWire(a.val)
			if a.nilv {
				v = "~"
			}
			out = append(out, a.sym+"="+v)
		case 'l':
			out = append(out, a.sym+"="+uvListS(a.list))
		default:
			out = append(out, "@"+a.sym+"="+uvListS(a.list))
		}
	}
	if len(out) == 0 {
		return "-"
	}
	return strings.Join(out, ",")
}

func (g *uvGen1) someIds(gs *uvGenStore, self string) []string {
	n := []int{0, 1, 1, 2, 2, 3}[g.r.intn(6)]
	var out []string
	m := g.members(gs)
	for i := 0; i < n; i++ {
		switch {
		case g.r.chance(1, 14):
			out = append(out, g.anyId(gs))
		case g.r.chance(1, 8) && self != "":
			out = append(out, self)
		case len(m) > 0:
			out = append(out, pick(g.r, m))
		}
	}
	return out
}

// values for every field of the store (a child store: the parent's fields too); self: the id being written
func (g *uvGen1) assigns(gs *uvGenStore, self string, keep *uvBEnt) []uvAssign {
	var out []uvAssign
	for _, s := range g.chain(gs) {
		fk := map[string]*uvCons{}
		for _, c := range s.fks {
			fk[c.sym] = c
		}
		for _, f := range s.scalars {
			a := uvAssign{sym: f.sym, kind: 's', chk: f.chk}
			if keep != nil && g.r.chance(1, 2) { // an update that leaves the value as it is
				a.val = keep.S[f.sym]
				a.nilv = a.val == ""
				out = append(out, a)
				continue
			}
			if c, isFk := fk[f.sym]; isFk {
				tgt := g.by[c.target]
				m := g.members(tgt)
				x := g.r.intn(100)
				switch {
				case c.nullable && (x < 22 || len(m) == 0 && x < 90):
					a.nilv = !g.r.chance(1, 4)
				case !c.nullable && x < 5:
					a.nilv = g.r.chance(1, 2)
				case x < 32 && tgt.fam == s.fam:
					a.val = self
				case len(m) > 0 && x < 95:
					a.val = pick(g.r, m)
				default:
					a.val = g.anyId(tgt)
				}
			} else {
				u := s.uniq[f.sym]
				x := g.r.intn(100)
				switch {
				case (u == nil || u.nullable) && x < 18:
					a.nilv = true
				case (u == nil || u.nullable) && x < 26:
				case u != nil && !u.nullable && x < 7:
					a.nilv = g.r.chance(1, 2)
				default:
					a.val = pick(g.r, uvValues)
				}
			}
			out = append(out, a)
		}
		for _, f := range s.lists {
			a := uvAssign{sym: f.sym, kind: 'l', chk: f.chk}
			if keep != nil && g.r.chance(1, 3) {
				a.list = keep.L[f.sym]
			} else {
				n := []int{0, 1, 1, 2, 2, 2, 3}[g.r.intn(7)]
				for i := 0; i < n; i++ {
					a.list = append(a.list, pick(g.r, uvRoles))
				}
			}
			out = append(out, a)
		}
		for _, l := range g.links {
			if l.rc {
				continue
			}
			for i := 0; i < 2; i++ {
				if l.ends[i].store != s.st.name || (i == 1 && l.selfSame()) || !g.r.chance(1, 3) {
					continue
				}
				out = append(out, uvAssign{sym: l.ends[i].sym, kind: 'm', chk: l.ends[i].sym, list: g.someIds(g.by[l.ends[1-i].store], self)})
			}
		}
	}
	return out
}

func (g *uvGen1) checkerNames(as []uvAssign, gs *uvGenStore) []string {
	var names []string
	keys := map[string][2]string{}
	for _, s := range g.chain(gs) {
		for _, f := range append(append([]*uvField{}, s.scalars...), s.lists...) {
			keys[f.sym] = [2]string{f.key, f.sym}
		}
	}
	for _, a := range as {
		x := g.r.intn(100)
		switch {
		case x < 55:
			names = append(names, a.chk) // the caller-side name
		case x < 60:
			names = append(names, keys[a.sym][0]) // the stored key (no effect when it differs)
		case x < 65:
			names = append(names, a.sym)
		}
	}
	return names
}

func (g *uvGen1) opCreate() uvGenOp {
	r := g.r
	gs := pick(r, g.stores)
	var id string
	if gs.parent != nil && r.chance(1, 2) {
		// over an existing parent entity that has no data of this child store yet
		var cand []string
		for _, c := range g.members(gs.parent) {
			if !g.isMember(gs, c) {
				cand = append(cand, c)
			}
		}
		if len(cand) > 0 {
			id = pick(r, cand)
		}
	}
	if id == "" {
		var free []string
		for _, c := range g.pools[gs.fam] {
			if g.b.ents[gs.fam][c] == nil {
				free = append(free, c)
			}
		}
		if len(free) > 0 && !r.chance(1, 12) {
			id = pick(r, free)
		} else {
			id = g.anyId(gs)
		}
	}
	var keep *uvBEnt
	if e := g.b.ents[gs.fam][id]; e != nil && r.chance(1, 2) {
		keep = e // a child create over an existing parent that keeps (some of) the parent's values
	}
	as := g.assigns(gs, id, keep)
	over := gs.parent != nil && g.b.ents[gs.fam][id] != nil // a child create over an existing parent entity
	if g.rootOf(gs).st.sys && (r.chance(1, 10) || (over && r.chance(1, 3))) {
		// asks for a system entity from an ordinary context: refused, whichever store and whether or not the parent exists
		return uvGenOp{fmt.Sprintf("c:%s:%s:%s,!sys=1", gs.st.name, toWire(id), uvAssignS(as)), func() bool { return false }}
	}
	return uvGenOp{fmt.Sprintf("c:%s:%s:%s", gs.st.name, toWire(id), uvAssignS(as)),
		func() bool { return g.believeWrite(gs, id, as, nil, true, true) }}
}

func (g *uvGen1) opUpdate(patch bool) uvGenOp {
	gs := pick(g.r, g.stores)
	id := g.memberOr(gs, 94)
	as := g.assigns(gs, id, g.b.ents[gs.fam][id])
	if !patch {
		return uvGenOp{fmt.Sprintf("u:%s:%s:%s", gs.st.name, toWire(id), uvAssignS(as)),
			func() bool { return g.believeWrite(gs, id, as, nil, true, false) }}
	}
	names := g.checkerNames(as, gs)
	ns := "-"
	if len(names) > 0 {
		ns = strings.Join(names, "+")
	}
	return uvGenOp{fmt.Sprintf("p:%s:%s:%s:%s", gs.st.name, toWire(id), ns, uvAssignS(as)),
		func() bool { return g.believeWrite(gs, id, as, names, false, false) }}
}

func (g *uvGen1) opDelete() uvGenOp {
	gs := pick(g.r, g.stores)
	id := g.memberOr(gs, 92)
	if g.r.chance(1, 3) {
		gs = g.rootOf(gs)
	}
	return uvGenOp{fmt.Sprintf("d:%s:%s", gs.st.name, toWire(id)), func() bool { return g.believeDelete(gs, id, map[string]bool{}) }}
}

func (g *uvGen1) opDeleteWhere() uvGenOp {
	r := g.r
	gs := pick(r, g.stores)
	q := "true"
	match := func(e *uvBEnt, id string) bool { return true }
	switch y := r.intn(4); {
	case y == 1 && len(gs.scalars) > 0:
		f, v := pick(r, gs.scalars), pick(r, uvValues)
		q = fmt.Sprintf(`%s = "%s"`, f.sym, v)
		match = func(e *uvBEnt, id string) bool { return e.S[f.sym] == v }
	case y == 2 && len(gs.lists) > 0:
		f, v := pick(r, gs.lists), pick(r, uvRoles)
		q = fmt.Sprintf(`anyOf(%s) = "%s"`, f.sym, v)
		match = func(e *uvBEnt, id string) bool { return uvContains(e.L[f.sym], v) }
	case y == 0 || y == 3:
		x := g.memberOr(gs, 85)
		q = fmt.Sprintf(`id = "%s"`, x)
		match = func(e *uvBEnt, id string) bool { return id == x }
	}
	return uvGenOp{fmt.Sprintf("w:%s:%s", gs.st.name, toWire(q)), func() bool {
		var ids []string
		for _, id := range g.members(gs) {
			if match(g.b.ents[gs.fam][id], id) {
				ids = append(ids, id)
			}
		}
		sort.Strings(ids)
		for _, id := range ids {
			if !g.believeDelete(gs, id, map[string]bool{}) {
				return false
			}
		}
		return true
	}}
}

func (g *uvGen1) opLink() uvGenOp {
	r := g.r
	if len(g.links) == 0 {
		return g.opCreate()
	}
	l := pick(r, g.links)
	sd := r.intn(2)
	side := "ab"[sd : sd+1]
	me, other := g.by[l.ends[sd].store], g.by[l.ends[1-sd].store]
	id := g.memberOr(me, 95)
	both := func(k string) func() bool {
		return func() bool { return g.isMember(me, id) && g.isMember(other, k) }
	}
	if l.rc {
		k := g.memberOr(other, 95)
		switch r.intn(5) {
		case 0, 1:
			return uvGenOp{fmt.Sprintf("inc:%s:%s:%s:%s", l.name, side, toWire(id), toWire(k)), both(k)}
		case 2:
			return uvGenOp{fmt.Sprintf("dec:%s:%s:%s:%s", l.name, side, toWire(id), toWire(k)), func() bool { return g.isMember(me, id) }}
		default:
			return uvGenOp{fmt.Sprintf("set:%s:%s:%s:%s:%d", l.name, side, toWire(id), toWire(k), []int{0, 1, 2, 2, 3}[r.intn(5)]), both(k)}
		}
	}
	all := func(ids []string) bool {
		if !g.isMember(me, id) {
			return false
		}
		for _, x := range ids {
			if !g.isMember(other, x) {
				return false
			}
		}
		return true
	}
	switch r.intn(7) {
	case 0, 1:
		ids := g.someIds(other, id)
		return uvGenOp{fmt.Sprintf("al:%s:%s:%s:%s", l.name, side, toWire(id), uvListS(ids)), func() bool {
			if !all(ids) {
				return false
			}
			for _, x := range ids {
				g.link(l, sd, id, x, true)
			}
			return true
		}}
	case 2:
		ids := g.someIds(other, id)
		return uvGenOp{fmt.Sprintf("rl:%s:%s:%s:%s", l.name, side, toWire(id), uvListS(ids)), func() bool {
			if !g.isMember(me, id) {
				return false
			}
			for _, x := range ids {
				g.link(l, sd, id, x, false)
			}
			return true
		}}
	case 3, 4:
		ids := g.someIds(other, id)
		if r.chance(1, 4) {
			ids = nil
		}
		return uvGenOp{fmt.Sprintf("sl:%s:%s:%s:%s", l.name, side, toWire(id), uvListS(ids)), func() bool {
			if !all(ids) {
				return false
			}
			g.setLinks(l, sd, id, ids)
			return true
		}}
	case 5:
		k := g.memberOr(other, 94)
		return uvGenOp{fmt.Sprintf("a1:%s:%s:%s:%s", l.name, side, toWire(id), toWire(k)), func() bool {
			if !all([]string{k}) {
				return false
			}
			g.link(l, sd, id, k, true)
			return true
		}}
	default:
		k := g.memberOr(other, 85)
		if r.chance(1, 3) { // an id that is a proper prefix of a linked one
			linked := g.lkSet(l, sd, id)
			for _, x := range g.pools[other.fam] {
				for _, p := range g.pools[other.fam] {
					if linked[x] && p != x && strings.HasPrefix(x, p) && !linked[p] {
						k = p
					}
				}
			}
		}
		return uvGenOp{fmt.Sprintf("r1:%s:%s:%s:%s", l.name, side, toWire(id), toWire(k)), func() bool {
			if !g.isMember(me, id) {
				return false
			}
			g.link(l, sd, id, k, false)
			return true
		}}
	}
}

func (g *uvGen1) drawOp(t int) uvGenOp {
	x := g.r.intn(100)
	if t < 3 && x >= 36 {
		x = g.r.intn(60) // populate first
	}
	switch {
	case x < 36:
		return g.opCreate()
	case x < 50:
		return g.opUpdate(false)
	case x < 62:
		return g.opUpdate(true)
	case x < 76:
		return g.opDelete()
	case x < 79:
		return g.opDeleteWhere()
	default:
		return g.opLink()
	}
}

// one operation: drawn until the belief accepts it, except that about one in seven is taken as it comes
func (g *uvGen1) genOp(t int) (string, bool) {
	free := g.r.chance(1, 7)
	var last uvGenOp
	for try := 0; try < 8; try++ {
		op := g.drawOp(t)
		save := g.b.clone()
		if op.run() {
			return op.text, true
		}
		g.b = save
		last = op
		if free {
			break
		}
	}
	return last.text, false
}

// delete / re-create / delete of one id inside one transaction
func (g *uvGen1) recreatePattern() []string {
	gs := pick(g.r, g.stores)
	m := g.members(gs)
	if len(m) == 0 {
		return nil
	}
	id := pick(g.r, m)
	via := gs
	if g.r.chance(1, 2) {
		via = g.rootOf(gs)
	}
	save := g.b.clone()
	if !g.believeDelete(via, id, map[string]bool{}) {
		g.b = save
		return nil
	}
	ops := []string{fmt.Sprintf("d:%s:%s", via.st.name, toWire(id))}
	for try := 0; try < 6; try++ {
		as := g.assigns(gs, id, nil)
		s2 := g.b.clone()
		if g.believeWrite(gs, id, as, nil, true, true) {
			ops = append(ops, fmt.Sprintf("c:%s:%s:%s", gs.st.name, toWire(id), uvAssignS(as)))
			break
		}
		g.b = s2
	}
	if len(ops) == 2 {
		switch g.r.intn(3) {
		case 0:
			s3 := g.b.clone()
			if g.believeDelete(via, id, map[string]bool{}) {
				ops = append(ops, fmt.Sprintf("d:%s:%s", via.st.name, toWire(id)))
			} else {
				g.b = s3
			}
		case 1: // ... then the delete of an entity the re-created one references through a cascading reference
			for _, s := range g.chain(gs) {
				for _, c := range s.fks {
					e := g.b.ents[gs.fam][id]
					if e == nil || !c.cascade || e.S[c.sym] == "" || len(ops) != 2 {
						continue
					}
					v := e.S[c.sym]
					tgt := g.by[c.target]
					s3 := g.b.clone()
					if g.believeDelete(tgt, v, map[string]bool{}) {
						ops = append(ops, fmt.Sprintf("d:%s:%s", tgt.st.name, toWire(v)))
					} else {
						g.b = s3
					}
				}
			}
		}
	}
	return ops
}

// a reference of a store to itself: the smallest entity names itself, another one names it, then its delete
// (refused while the reference restricts, a cascade otherwise) — three transactions
func (g *uvGen1) selfRefPattern() [][]uvGenOp {
	var cands []*uvCons
	for _, c := range g.allFk {
		if c.store == c.target && len(g.members(g.by[c.store])) >= 2 {
			cands = append(cands, c)
		}
	}
	if len(cands) == 0 {
		return nil
	}
	c := pick(g.r, cands)
	gs := g.by[c.store]
	m := g.members(gs)
	sort.Strings(m)
	x := m[0]
	y := m[1+g.r.intn(len(m)-1)]
	set := func(id string) uvGenOp {
		e := g.b.ents[gs.fam][id]
		var as []uvAssign
		for _, s := range g.chain(gs) {
			for _, f := range s.scalars {
				a := uvAssign{sym: f.sym, kind: 's', chk: f.chk, val: e.S[f.sym], nilv: e.S[f.sym] == ""}
				if f.sym == c.sym {
					a.val, a.nilv = x, false
				}
				as = append(as, a)
			}
		}
		return uvGenOp{fmt.Sprintf("u:%s:%s:%s", gs.st.name, toWire(id), uvAssignS(as)),
			func() bool { return g.believeWrite(gs, id, as, nil, true, false) }}
	}
	return [][]uvGenOp{{set(x)}, {set(y)},
		{{fmt.Sprintf("d:%s:%s", gs.st.name, toWire(x)), func() bool { return g.believeDelete(gs, x, map[string]bool{}) }}}}
}

// an operation the API has to refuse, as a transaction of its own: the delete of an entity that a restricting
// reference names, a duplicate unique value, nil / empty in a non-nullable field, a reference or a link to an id
// that is no entity, a write to an entity that does not exist
func (g *uvGen1) probe() *uvGenOp {
	r := g.r
	for try := 0; try < 6; try++ {
		switch r.intn(6) {
		case 0: // restricted delete
			var cands [][2]string
			for _, c := range g.allFk {
				if c.cascade {
					continue
				}
				src := g.by[c.store]
				for _, rid := range g.members(src) {
					if v := g.b.ents[src.fam][rid].S[c.sym]; v != "" {
						cands = append(cands, [2]string{c.target, v})
					}
				}
			}
			if len(cands) == 0 {
				continue
			}
			c := pick(r, cands)
			gs := g.by[c[0]]
			if r.chance(1, 2) {
				gs = g.rootOf(gs)
			}
			id := c[1]
			return &uvGenOp{fmt.Sprintf("d:%s:%s", gs.st.name, toWire(id)), func() bool { return g.believeDelete(gs, id, map[string]bool{}) }}
		case 1, 2: // duplicate value / nil or empty where it is not allowed, through any store of the chain
			gs := pick(r, g.stores)
			type tgt struct {
				sym string
				val string
				nl  bool
			}
			var ts []tgt
			for _, s := range g.chain(gs) {
				for sym, u := range s.uniq {
					for _, m := range g.members(s) {
						if v := g.b.ents[s.fam][m].S[sym]; v != "" {
							ts = append(ts, tgt{sym, v, false})
						}
					}
					if !u.nullable {
						ts = append(ts, tgt{sym, "", r.chance(1, 2)})
					}
				}
				for _, c := range s.fks {
					if !c.nullable {
						ts = append(ts, tgt{c.sym, "", r.chance(1, 2)})
					}
				}
			}
			if len(ts) == 0 {
				continue
			}
			sort.Slice(ts, func(i, j int) bool {
				if ts[i].sym != ts[j].sym {
					return ts[i].sym < ts[j].sym
				}
				return ts[i].val < ts[j].val
			})
			t := pick(r, ts)
			create := r.chance(2, 3)
			var id string
			if create {
				var free []string
				for _, c := range g.pools[gs.fam] {
					if !g.isMember(gs, c) {
						free = append(free, c)
					}
				}
				if len(free) == 0 {
					continue
				}
				id = pick(r, free)
			} else {
				m := g.members(gs)
				if len(m) == 0 {
					continue
				}
				id = pick(r, m)
			}
			as := g.assigns(gs, id, g.b.ents[gs.fam][id])
			for i := range as {
				if as[i].sym == t.sym {
					as[i].val, as[i].nilv = t.val, t.nl
				}
			}
			if create {
				return &uvGenOp{fmt.Sprintf("c:%s:%s:%s", gs.st.name, toWire(id), uvAssignS(as)),
					func() bool { return g.believeWrite(gs, id, as, nil, true, true) }}
			}
			return &uvGenOp{fmt.Sprintf("u:%s:%s:%s", gs.st.name, toWire(id), uvAssignS(as)),
				func() bool { return g.believeWrite(gs, id, as, nil, true, false) }}
		case 3: // a link to an id that is no entity of the other store
			if len(g.links) == 0 {
				continue
			}
			l := pick(r, g.links)
			sd := r.intn(2)
			me, other := g.by[l.ends[sd].store], g.by[l.ends[1-sd].store]
			m := g.members(me)
			var non []string
			for _, c := range g.pools[other.fam] {
				if !g.isMember(other, c) {
					non = append(non, c)
				}
			}
			if len(m) == 0 || len(non) == 0 {
				continue
			}
			id, k := pick(r, m), pick(r, non)
			side := "ab"[sd : sd+1]
			never := func() bool { return false }
			if l.rc {
				if r.chance(1, 2) {
					return &uvGenOp{fmt.Sprintf("inc:%s:%s:%s:%s", l.name, side, toWire(id), toWire(k)), never}
				}
				return &uvGenOp{fmt.Sprintf("set:%s:%s:%s:%s:2", l.name, side, toWire(id), toWire(k)), never}
			}
			kind := pick(r, []string{"al", "sl", "a1"})
			arg := toWire(k)
			if kind != "a1" {
				arg = uvListS([]string{k})
			}
			return &uvGenOp{fmt.Sprintf("%s:%s:%s:%s:%s", kind, l.name, side, toWire(id), arg), never}
		case 4: // a reference to an id that is no entity of the target store
			if len(g.allFk) == 0 {
				continue
			}
			c := pick(r, g.allFk)
			src, tgt := g.by[c.store], g.by[c.target]
			m := g.members(src)
			var non []string
			for _, x := range g.pools[tgt.fam] {
				if !g.isMember(tgt, x) {
					non = append(non, x)
				}
			}
			if len(m) == 0 || len(non) == 0 {
				continue
			}
			id, k := pick(r, m), pick(r, non)
			if k == id && tgt.fam == src.fam {
				continue
			}
			as := g.assigns(src, id, g.b.ents[src.fam][id])
			for i := range as {
				if as[i].sym == c.sym {
					as[i].val, as[i].nilv = k, false
				}
			}
			return &uvGenOp{fmt.Sprintf("u:%s:%s:%s", src.st.name, toWire(id), uvAssignS(as)),
				func() bool { return g.believeWrite(src, id, as, nil, true, false) }}
		default: // a write to an entity the store does not hold
			gs := pick(r, g.stores)
			var non []string
			for _, c := range g.pools[gs.fam] {
				if !g.isMember(gs, c) {
					non = append(non, c)
				}
			}
			if len(non) == 0 {
				continue
			}
			id := pick(r, non)
			as := g.assigns(gs, id, g.b.ents[gs.fam][id])
			return &uvGenOp{fmt.Sprintf("u:%s:%s:%s", gs.st.name, toWire(id), uvAssignS(as)),
				func() bool { return g.believeWrite(gs, id, as, nil, true, false) }}
		}
	}
	return nil
}

// one entity's link bucket written several times inside ONE transaction: AddLinks, then SetLinks to a smaller
// set, or RemoveLinks and the delete of the entity (the bucket of a collection of a store with itself may list
// the entity itself)
func (g *uvGen1) linkChurn() []uvGenOp {
	r := g.r
	var plain []*uvLink
	for _, l := range g.links {
		if !l.rc {
			plain = append(plain, l)
		}
	}
	if len(plain) == 0 {
		return nil
	}
	l := pick(r, plain)
	sd := r.intn(2)
	side := "ab"[sd : sd+1]
	me, other := g.by[l.ends[sd].store], g.by[l.ends[1-sd].store]
	mm, om := g.members(me), g.members(other)
	if len(mm) == 0 || len(om) == 0 {
		return nil
	}
	id := pick(r, mm)
	var ids []string
	if uvContains(om, id) && r.chance(2, 3) {
		ids = append(ids, id) // linked to itself
	}
	for _, x := range om {
		if x != id && r.chance(3, 4) && len(ids) < 4 {
			ids = append(ids, x)
		}
	}
	if len(ids) == 0 {
		return nil
	}
	member := func() bool { return g.isMember(me, id) }
	ops := []uvGenOp{{fmt.Sprintf("al:%s:%s:%s:%s", l.name, side, toWire(id), uvListS(ids)), func() bool {
		if !member() {
			return false
		}
		for _, x := range ids {
			if !g.isMember(other, x) {
				return false
			}
			g.link(l, sd, id, x, true)
		}
		return true
	}}}
	switch r.intn(3) {
	case 0:
		var keep []string
		if r.chance(1, 2) {
			keep = []string{pick(r, ids)}
		}
		ops = append(ops, uvGenOp{fmt.Sprintf("sl:%s:%s:%s:%s", l.name, side, toWire(id), uvListS(keep)), func() bool {
			if !member() {
				return false
			}
			g.setLinks(l, sd, id, keep)
			return true
		}})
	case 1:
		x := pick(r, ids)
		ops = append(ops, uvGenOp{fmt.Sprintf("rl:%s:%s:%s:%s", l.name, side, toWire(id), uvListS([]string{x})), func() bool {
			if !member() {
				return false
			}
			g.link(l, sd, id, x, false)
			return true
		}})
		fallthrough
	default:
		via := me
		if r.chance(1, 2) {
			via = g.rootOf(me)
		}
		ops = append(ops, uvGenOp{fmt.Sprintf("d:%s:%s", via.st.name, toWire(id)), func() bool { return g.believeDelete(via, id, map[string]bool{}) }})
	}
	return ops
}

func uvGenCase(r *rng) string {
	g := &uvGen1{r: r, by: map[string]*uvGenStore{}}
	g.genSchema()
	ntx := 6 + r.intn(9)
	var txs []string
	for t := 0; t < ntx; t++ {
		if t >= 3 && r.chance(1, 14) {
			for _, tx := range g.selfRefPattern() {
				start := g.b.clone()
				var texts []string
				ok := true
				for _, op := range tx {
					texts = append(texts, op.text)
					ok = ok && op.run()
				}
				if !ok {
					g.b = start
				}
				txs = append(txs, strings.Join(texts, ";"))
			}
		}
		nops := []int{1, 1, 1, 1, 1, 1, 1, 1, 2, 2, 2, 2, 2, 3, 3, 3, 4, 4, 5, 5}[r.intn(20)]
		start := g.b.clone()
		var ops []string
		ok := true
		push := func(op uvGenOp) {
			if !ok {
				return
			}
			ops = append(ops, op.text)
			ok = op.run()
		}
		switch x := r.intn(24); {
		case x < 4 && t >= 2: // an operation expected to be refused, alone in its transaction
			if p := g.probe(); p != nil {
				push(*p)
				nops = 1
			}
		case x < 7:
			ops = g.recreatePattern()
		case x < 10 && t >= 2:
			for _, op := range g.linkChurn() {
				push(op)
			}
		}
		for len(ops) < nops && ok {
			var text string
			text, ok = g.genOp(t)
			ops = append(ops, text)
		}
		if !ok {
			g.b = start // the belief expects the transaction to be rolled back
		}
		txs = append(txs, strings.Join(ops, ";"))
	}
	return "U @S " + strings.Join(g.tokens, " ") + " @H " + strings.Join(txs, " ")
}

// a size boundary: one entity linked to more than a thousand entities of the other store, then deleted.  Small
// schema (the dump is large): two root stores, optionally a child store of each, one plain link collection between
// two of them in random naming variants
func uvGenBulkCase(r *rng) string {
	var tok []string
	tok = append(tok, "st:A:alphas:-:0:"+uvPathS(pick(r, uvBasePaths))+":0", "st:B:betas:-:0:"+uvPathS(pick(r, uvBasePaths))+":0")
	ea, eb := "A", "B"
	if r.chance(1, 3) {
		tok = append(tok, fmt.Sprintf("st:A1:alphas:A:%s:%s:0", uvB(r.chance(1, 2)), uvPathS(pick(r, uvChildSolo))))
		ea = "A1"
	}
	if r.chance(1, 3) {
		tok = append(tok, fmt.Sprintf("st:B1:betas:B:%s:%s:0", uvB(r.chance(1, 2)), uvPathS(pick(r, uvChildSolo))))
		eb = "B1"
	}
	tok = append(tok, "f:A:sa:sa:-:sa:s:-", "ux:A:sa:1", "f:B:sa:Ksa:-:Csa:s:-", "ux:B:sa:0")
	end := func(sym string) string {
		switch r.intn(3) {
		case 1:
			return sym + ":K" + sym + ":-"
		case 2:
			return sym + ":" + sym + ":refs"
		}
		return sym + ":" + sym + ":-"
	}
	tok = append(tok, fmt.Sprintf("lk:L0:p:%s:%s:%s:%s", ea, end("ma"), eb, end("mb")))
	tok = append(tok, "ids:A:"+toWire("e1")+","+toWire("e2"), "ids:B:"+toWire("e1")+","+toWire("z0001")+","+toWire("z1001"), "cx:"+uvB(r.chance(1, 4)))
	n := 1001 + r.intn(40)
	id := pick(r, []string{"e1", "e2"})
	txs := []string{
		fmt.Sprintf("c:%s:%s:sa=~", ea, toWire(id)),
		fmt.Sprintf("blk:%s:%d:sa=#", eb, n),
	}
	link := fmt.Sprintf("al:L0:a:%s:[*%d]", toWire(id), n)
	del := fmt.Sprintf("d:%s:%s", pick(r, []string{ea, "A"}), toWire(id))
	switch r.intn(3) {
	case 0:
		txs = append(txs, link, del)
	case 1:
		txs = append(txs, link+";"+del)
	default:
		txs[1] += ";" + link
		txs = append(txs, del)
	}
	return "U @S " + strings.Join(tok, " ") + " @H " + strings.Join(txs, " ")
}

func uvGen(tier string, seed uint64, out *bufio.Writer) {
	n := 900
	if tier == "thorough" {
		n *= 20
	}
	if v, err := strconv.Atoi(os.Getenv("VERIF_UNIVERSE_N")); err == nil && v > 0 {
		n = v
	}
	r := newRng(seed*7919 + 17)
	for i := 0; i < n; i++ {
		if i%1500 == 40 { // one size-boundary case per 1500 histories (at least one per run)
			out.WriteString(uvGenBulkCase(r))
		} else {
			out.WriteString(uvGenCase(r))
		}
		out.WriteByte('\n')
	}
}
