package main

// C14 — LENGTH boundaries of elements and seek targets: elements / targets of 62, 63, 64, 65, 127, 128,
// 255, 256, 1000 and 4096 bytes with long common prefixes (siblings that differ only in their last byte, a
// proper prefix of them, extensions of them), for every cursor kind and for Seek / SeekToString on each;
// and the re-used runtime symbol sought with targets of different lengths in turn (a long seek followed by a
// short one and vice versa).  The case lines are ordinary C14 lines (descriptions / R cases): the model and
// the theorems quantify over all byte strings, so only the generator changes.

import (
	"bufio"
	"fmt"
)

var c14LongLens = []int{62, 63, 64, 65, 127, 128, 255, 256, 1000, 4096}

// the family around a common prefix P of n-1 bytes: P itself (a proper prefix of the others), a shorter
// prefix, the siblings P+a / P+b / P+d (n bytes) and two extensions of a sibling (n+1 bytes)
type c14LongFam struct {
	n        int
	prefix   string
	universe []string // candidate elements
	targets  []string // seek targets: present, absent, between, truncated at the usual buffer sizes, short
	critical []string // the targets right at the length boundary: siblings, their extensions, the prefix
}

func c14MakeLongFam(r *rng, n int) *c14LongFam {
	p := make([]byte, n-1)
	style := r.intn(3)
	for i := range p {
		switch style {
		case 0:
			p[i] = 'p'
		case 1:
			p[i] = "abcdxyz0189-_"[r.intn(13)]
		default:
			p[i] = pick(r, []byte{'a', 'b', 0x00, 0xff, 0x05, 'z'})
		}
	}
	if p[0] == 0 {
		p[0] = 'q'
	}
	P := string(p)
	f := &c14LongFam{n: n, prefix: P}
	f.universe = []string{P[:len(P)-1], P, P + "a", P + "b", P + "d", P + "b\x00", P + "bz", "a", "b"}
	t := append([]string{}, f.universe...)
	t = append(t, P+"c", P+"\x00", P+"\xff", P+"e", P+"a\x00", P[:len(P)-1]+"\x00", "", "c", "p", "\x05"+P+"b", "\x05"+P)
	// what a fixed-size buffer would make of the long targets
	for _, cut := range []int{62, 63, 64, 126, 127, 128, 254, 255, 256} {
		for _, x := range []string{P + "b", P + "d"} {
			if len(x) > cut {
				t = append(t, x[:cut])
			}
		}
	}
	f.targets = t
	f.critical = []string{P, P + "a", P + "b", P + "b\x00", P + "bz", P + "c", P + "d", P + "e", P + "\xff"}
	return f
}

// a set of the family: the siblings with high probability (a smaller sibling in front of a larger one is
// what a truncated seek lands on), the rest with probability 1/2
func (f *c14LongFam) set(r *rng, max int) []string {
	var res []string
	for i, e := range f.universe {
		p := 1
		if i >= 2 && i <= 4 {
			p = 3
		}
		if len(res) < max && r.chance(p, p+1) {
			res = append(res, e)
		}
	}
	if len(res) == 0 {
		res = []string{f.prefix + "a", f.prefix + "d"}
	}
	return res
}

type c14LongKind struct {
	name        string
	seek, seekS bool
	core        bool // always generated in the quick tier
	mk          func(r *rng, f *c14LongFam) *c14Node
}

func c14LongKinds() []c14LongKind {
	typed := func(fwd bool, vias []string) func(r *rng, f *c14LongFam) *c14Node {
		return func(r *rng, f *c14LongFam) *c14Node {
			kind := "trev"
			if fwd {
				kind = "tfwd"
			}
			return c14Leaf(kind, pick(r, vias), 5, f.set(r, 7))
		}
	}
	raw := func(fwd bool, vias []string) func(r *rng, f *c14LongFam) *c14Node {
		return func(r *rng, f *c14LongFam) *c14Node {
			kind := "rev"
			if fwd {
				kind = "fwd"
			}
			return c14Leaf(kind, pick(r, vias), 0, f.set(r, 7))
		}
	}
	scan := func(via string) func(r *rng, f *c14LongFam) *c14Node {
		return func(r *rng, f *c14LongFam) *c14Node {
			ids := f.set(r, 7)
			var skip []string
			if via == "cids" {
				skip = c14SubsetP(r, ids, len(ids), true, 1, 3)
			}
			keep := c14SubsetP(r, ids, len(ids), true, 3, 4)
			sc := &c14Node{kind: "scan", fwd: true, kids: []*c14Node{c14Leaf("fwd", via, 0, ids)}, set: skip, set2: keep}
			if via == "xids" {
				return &c14Node{kind: "valid", fwd: true, kids: []*c14Node{sc}, set: c14SubsetP(r, ids, len(ids), true, 3, 4)}
			}
			return sc
		}
	}
	return []c14LongKind{
		{name: "setsym", seek: true, seekS: true, core: true, mk: func(r *rng, f *c14LongFam) *c14Node { return c14Leaf("setsym", "", 0, f.set(r, 7)) }},
		{name: "tfwd", seek: true, core: true, mk: typed(true, []string{"list", "dir", "typed", "new"})},
		{name: "trev", seek: true, core: true, mk: typed(false, []string{"dir", "typed", "new"})},
		{name: "fwd", seek: true, core: true, mk: raw(true, []string{"seekable", "open", "newdir", "new"})},
		{name: "rev", seek: true, core: true, mk: raw(false, []string{"open", "newdir", "new"})},
		{name: "rel-f", seek: true, mk: typed(true, []string{"rel"})},
		{name: "rel-r", seek: true, mk: typed(false, []string{"rel"})},
		{name: "val-f", seek: true, mk: typed(true, []string{"val"})},
		{name: "val-r", seek: true, mk: typed(false, []string{"val"})},
		{name: "link", seek: true, mk: typed(true, []string{"link", "rclink"})},
		{name: "rclink-r", seek: true, mk: typed(false, []string{"rclink"})},
		{name: "key-f", seek: true, mk: raw(true, []string{"key"})},
		{name: "key-r", seek: true, mk: raw(false, []string{"key"})},
		{name: "scan", seek: true, mk: scan("ids")},
		{name: "scan-child", seek: true, mk: scan("cids")},
		{name: "valid", seek: true, mk: scan("xids")},
		{name: "tree", mk: func(r *rng, f *c14LongFam) *c14Node {
			return &c14Node{kind: "tree", fwd: r.chance(1, 2), set: f.set(r, 7)}
		}},
		{name: "filt", mk: func(r *rng, f *c14LongFam) *c14Node {
			fwd := r.chance(1, 2)
			in := typed(fwd, []string{"dir", "typed"})(r, f)
			return &c14Node{kind: "filt", fwd: fwd, kids: []*c14Node{in}, set: c14SubsetP(r, f.universe, len(f.universe), false, 2, 3)}
		}},
		{name: "union", mk: func(r *rng, f *c14LongFam) *c14Node {
			fwd := r.chance(1, 2)
			a := typed(fwd, []string{"dir", "typed"})(r, f)
			b := &c14Node{kind: "tree", fwd: fwd, set: f.set(r, 5)}
			return &c14Node{kind: "union", fwd: fwd, kids: []*c14Node{a, b}}
		}},
		{name: "allof", mk: func(r *rng, f *c14LongFam) *c14Node { return c14LongMatching("allof", r, f) }},
		{name: "anyof", mk: func(r *rng, f *c14LongFam) *c14Node { return c14LongMatching("anyof", r, f) }},
		{name: "stacked", mk: func(r *rng, f *c14LongFam) *c14Node {
			// long other ids and long tags below them
			w := &c14World{}
			oids := []string{f.prefix + "a", f.prefix + "b", "o1"}
			for _, id := range oids {
				w.others = append(w.others, c14WOther{id: id, tags: f.set(r, 3)})
			}
			w.things = []c14WThing{{id: "e", tags: f.set(r, 3), others: c14SubsetP(r, oids, 3, true, 3, 4)}}
			return &c14Node{kind: "stacked", fwd: true, via: pick(r, []string{"others.tags", "others.things.tags"}), set: []string{"e"}, world: w}
		}},
	}
}

// ids and roles of the family: rows hold one or two of the roles
func c14LongMatching(kind string, r *rng, f *c14LongFam) *c14Node {
	ids := f.set(r, 6)
	roles := []string{f.prefix + "a", f.prefix + "b", "r"}
	rows := make([]c14Row, len(ids))
	for i, id := range ids {
		rows[i] = c14Row{id: id, roles: c14SubsetP(r, roles, 3, true, 1, 2)}
	}
	nv := pick(r, []int{1, 2, 2, 3})
	return &c14Node{kind: kind, fwd: r.chance(1, 2), table: rows, set: c14SubsetP(r, roles, nv, true, 1, 1)}
}

// seek-heavy scripts: targets of different lengths in turn
func c14LongOps(r *rng, k c14LongKind, f *c14LongFam, maxLen int) []c14Op {
	n := 1 + r.intn(maxLen)
	ops := make([]c14Op, 0, n)
	target := func() string {
		if r.chance(1, 2) {
			return pick(r, f.critical)
		}
		return pick(r, f.targets)
	}
	for i := 0; i < n; i++ {
		switch {
		case k.seekS && r.chance(1, 2):
			ops = append(ops, c14Op{kind: 't', val: target()})
		case k.seek && r.chance(3, 5):
			ops = append(ops, c14Op{kind: 's', val: target()})
		default:
			ops = append(ops, c14Op{kind: 'n'})
		}
	}
	return ops
}

func c14GenLong(tier string, r *rng, out *bufio.Writer) {
	kinds := c14LongKinds()
	extra, scripts, rounds := 2, 6, 2
	if tier == "thorough" {
		extra, scripts, rounds = len(kinds), 16, 2
	}
	for round := 0; round < rounds; round++ {
		for _, n := range c14LongLens {
			f := c14MakeLongFam(r, n)
			var chosen []c14LongKind
			var rest []c14LongKind
			for _, k := range kinds {
				if k.core {
					chosen = append(chosen, k)
				} else {
					rest = append(rest, k)
				}
			}
			for _, i := range r.perm(len(rest)) {
				if len(chosen) < 5+extra {
					chosen = append(chosen, rest[i])
				}
			}
			for _, k := range chosen {
				d := k.mk(r, f).String()
				fmt.Fprintf(out, "%s n,n,n,n,n,n,n,n,n\n", d)
				for j := 0; j < scripts; j++ {
					fmt.Fprintf(out, "%s %s\n", d, c14ShowOps(c14LongOps(r, k, f, 5)))
				}
			}
			// the world of an R case repeats ~30 long strings per line: fewer of them for the kilobyte lengths
			switch {
			case n < 1000 || tier == "thorough":
				c14GenLongReuse(r, f, scripts, out)
			case round == 0:
				c14GenLongReuse(r, f, 3, out)
			}
		}
	}
}

// the runtime symbol re-used across rows: rows with long siblings, with short elements, without bucket;
// every segment seeks, with targets of all lengths in turn
func c14GenLongReuse(r *rng, f *c14LongFam, scripts int, out *bufio.Writer) {
	P := f.prefix
	w := &c14World{
		others: []c14WOther{{id: P + "a"}, {id: P + "b"}, {id: P + "d"}, {id: "o1"}},
		things: []c14WThing{
			{id: "e1", tags: f.set(r, 6), others: []string{P + "a", P + "d"}, rc: []string{P + "a", P + "b", "o1"}, hasRc: true, rcSet: true},
			{id: "e2", tags: []string{"a", "b", "c"}, others: []string{"o1"}, rcSet: true},
			{id: "e3", tags: f.set(r, 6), others: []string{P + "a", P + "b", P + "d", "o1"}, rc: []string{P + "d"}, hasRc: true, rcSet: true},
		},
	}
	roots := []string{"e1", "e2", "e3", "missing"}
	type variant struct {
		mode, path, keep string
		k                c14LongKind
	}
	keep := c14ShowSet([]string{P + "a", P + "d", "o1"})
	vs := []variant{
		{"d", "tags", "_", c14LongKind{seek: true, seekS: true}},
		{"r", "tags", "_", c14LongKind{seek: true, seekS: true}},
		{pick(r, []string{"d", "r"}), pick(r, []string{"others", "rcOthers"}), "_", c14LongKind{seek: true, seekS: true}},
		{"q", pick(r, []string{"others", "rcOthers"}), keep, c14LongKind{seek: true}},
		{"n", pick(r, c14Providers), "_", c14LongKind{seek: true}},
	}
	for _, v := range vs {
		desc := "R;" + v.mode + ";" + v.path + ";" + w.String() + ";" + v.keep
		for j := 0; j < scripts; j++ {
			n := 2 + r.intn(3)
			segs := make([]c14Seg, n)
			for i := range segs {
				segs[i] = c14Seg{root: pick(r, roots), ops: c14LongOps(r, v.k, f, 3)}
			}
			fmt.Fprintf(out, "%s %s\n", desc, c14ShowSegs(segs))
		}
	}
}
