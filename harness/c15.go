package main

// C15 — parent and child (extension) stores stay consistent.
//
// Real stores wired through the exported API only:
//
//	A  "things"  base path ["u"]           name string (unique index), roles []string (set index)
//	A1 child of A, path ["ext1"], plain    code *string (nullable unique index of its own)
//	A2 child of A, path ["ext2"], extended colour *string
//
// case line:   h <tx>;<tx>;…      tx = <op>,<op>,…      (one Db.Update per tx, first error aborts it)
//              g <tx>;<tx>;…      the same with A2's strategy registered before A1's
//
// every kind token may carry the shape of the layering, <kind>~<p1>~<p2>~<base>: the BasePath (data
// sub-path inside the parent's entity bucket, one or more segments separated by '.') of A1 and of A2 and
// the base path of the parent store; default ext1, ext2, u
//              k <tx>;<tx>;… <item>;<item>;…   the same, then cursor scripts / provider queries (c15_cursor.go)
//
//	c/<s>/<id>/<name>/<roles>/<child>         Create through store s (0 = A, 1 = A1, 2 = A2)
//	u/<s>/<id>/<name>/<roles>/<child>/<chk>   Update; chk = * (nil checker) | subset of "nrc" | -
//	d/<s>/<id>                                DeleteById
//	w/<s>/<filter>                            DeleteWhere (filter t | n1 | r1)
//
// The parent store's entity strategy validates the shared fields (strategies are user code): the
// name "v9" is reserved and more than three roles are refused, each reported on the persist
// context's bucket and only when the field checker lets the field be written.
//
// output line: one segment per transaction (see lean/StorageModel/Driver/C15.lean), with the
// answers of FindById / QueryIds / IterateIds / IterateValidIds through each store, the parent
// index reads and the canonicalised boltz.Traverse dump.

import (
	"bufio"
	"bytes"
	"context"
	"errors"
	"fmt"
	"os"
	"path/filepath"
	"sort"
	"strconv"
	"strings"

	"github.com/openziti/storage/ast"
	"github.com/openziti/storage/boltz"
	"go.etcd.io/bbolt"
)

func init() {
	register("c15", &propHarness{gen: c15Gen, exec: c15Exec})
}

const (
	c15NIds  = 4
	c15NVals = 4
)

func c15IdS(k int) string {
	if k == 0 {
		return ""
	}
	return "e" + strconv.Itoa(k)
}
func c15ValS(k int) string {
	if k == 0 {
		return ""
	}
	return "v" + strconv.Itoa(k)
}
func c15RoleS(k int) string {
	if k == 0 {
		return ""
	}
	return "r" + strconv.Itoa(k)
}

// reverse mappings (anything unexpected is printed as ?<hex> and so never matches the model)
func c15Code(prefix string, s string) string {
	if s == "" {
		return "0"
	}
	if strings.HasPrefix(s, prefix) {
		if n, err := strconv.Atoi(s[len(prefix):]); err == nil && n > 0 && prefix+strconv.Itoa(n) == s {
			return strconv.Itoa(n)
		}
	}
	return "?" + toWire(s)
}

// ---------------------------------------------------------------- entities and strategies

type c15Thing struct {
	Id    string
	Name  string
	Roles []string
}

func (e *c15Thing) GetId() string         { return e.Id }
func (e *c15Thing) SetId(id string)       { e.Id = id }
func (e *c15Thing) GetEntityType() string { return "things" }

type c15Ext1 struct {
	c15Thing
	Code *string
}

type c15Ext2 struct {
	c15Thing
	Colour *string
}

type c15ThingStrategy struct{}

func (c15ThingStrategy) NewEntity() *c15Thing { return new(c15Thing) }
func (c15ThingStrategy) FillEntity(e *c15Thing, bucket *boltz.TypedBucket) {
	e.Name = bucket.GetStringOrError("name")
	e.Roles = bucket.GetStringList("roles")
}
func (c15ThingStrategy) PersistEntity(e *c15Thing, ctx *boltz.PersistContext) {
	ctx.SetString("name", e.Name)
	ctx.SetStringList("roles", e.Roles)
	if ctx.ProceedWithSet("name") && e.Name == c15ReservedName {
		ctx.Bucket.SetError(errC15ReservedName)
	}
	if ctx.ProceedWithSet("roles") && len(e.Roles) > c15MaxRoles {
		ctx.Bucket.SetError(errC15TooManyRoles)
	}
}

const (
	c15ReservedName = "v9"
	c15MaxRoles     = 3
)

var (
	errC15ReservedName = errors.New("c15: the name is reserved")
	errC15TooManyRoles = errors.New("c15: a thing may have at most three roles")
)

type c15Ext1Strategy struct{ parent *boltz.BaseStore[*c15Thing] }

func (s *c15Ext1Strategy) NewEntity() *c15Ext1 { return new(c15Ext1) }
func (s *c15Ext1Strategy) FillEntity(e *c15Ext1, bucket *boltz.TypedBucket) {
	_, err := s.parent.LoadEntity(bucket.Tx(), e.Id, &e.c15Thing)
	bucket.SetError(err)
	e.Code = bucket.GetString("code")
}
func (s *c15Ext1Strategy) PersistEntity(e *c15Ext1, ctx *boltz.PersistContext) {
	s.parent.GetEntityStrategy().PersistEntity(&e.c15Thing, ctx.GetParentContext())
	ctx.SetStringP("code", e.Code)
}

type c15Ext2Strategy struct{ parent *boltz.BaseStore[*c15Thing] }

func (s *c15Ext2Strategy) NewEntity() *c15Ext2 { return new(c15Ext2) }
func (s *c15Ext2Strategy) FillEntity(e *c15Ext2, bucket *boltz.TypedBucket) {
	_, err := s.parent.LoadEntity(bucket.Tx(), e.Id, &e.c15Thing)
	bucket.SetError(err)
	e.Colour = bucket.GetString("colour")
}
func (s *c15Ext2Strategy) PersistEntity(e *c15Ext2, ctx *boltz.PersistContext) {
	s.parent.GetEntityStrategy().PersistEntity(&e.c15Thing, ctx.GetParentContext())
	ctx.SetStringP("colour", e.Colour)
}

type c15Stores struct {
	events  []string // entity events delivered to the stores' listeners, in delivery order
	a       *boltz.BaseStore[*c15Thing]
	a1      *boltz.BaseStore[*c15Ext1]
	a2      *boltz.BaseStore[*c15Ext2]
	nameIdx boltz.ReadIndex
	roleIdx boltz.SetReadIndex
	codeIdx boltz.ReadIndex
}

func c15NotFound(id string) error { return boltz.NewNotFoundError("thing", "id", id) }

func c15ParentMapper(entity boltz.Entity) boltz.Entity {
	switch e := entity.(type) {
	case *c15Ext1:
		return &e.c15Thing
	case *c15Ext2:
		return &e.c15Thing
	}
	return entity
}

// the stores are declared the way boltz/manager_store_test.go declares a child store;
// a2First: register the extended child store's strategy before the plain child store's
type c15Shape struct{ p1, p2, base []string }

var c15DefaultShape = c15Shape{p1: []string{"ext1"}, p2: []string{"ext2"}, base: []string{"u"}}

// kind token -> kind letter, shape
func c15ParseKind(tok string) (string, c15Shape, bool) {
	f := strings.Split(tok, "~")
	if len(f) == 1 {
		return f[0], c15DefaultShape, true
	}
	if len(f) != 4 {
		return "", c15Shape{}, false
	}
	sh := c15Shape{p1: strings.Split(f[1], "."), p2: strings.Split(f[2], "."), base: strings.Split(f[3], ".")}
	return f[0], sh, true
}

func (sh c15Shape) token(kind string) string {
	if strings.Join(sh.p1, ".") == "ext1" && strings.Join(sh.p2, ".") == "ext2" && strings.Join(sh.base, ".") == "u" {
		return kind
	}
	return kind + "~" + strings.Join(sh.p1, ".") + "~" + strings.Join(sh.p2, ".") + "~" + strings.Join(sh.base, ".")
}

func c15NewStores(a2First bool, sh c15Shape) *c15Stores {
	s := &c15Stores{}
	s.a = boltz.NewBaseStore(boltz.StoreDefinition[*c15Thing]{
		EntityType:      "things",
		EntityStrategy:  c15ThingStrategy{},
		BasePath:        sh.base,
		EntityNotFoundF: c15NotFound,
	})
	s.a.InitImpl(s.a)
	s.a1 = boltz.NewBaseStore(boltz.StoreDefinition[*c15Ext1]{
		EntityStrategy:  &c15Ext1Strategy{parent: s.a},
		BasePath:        sh.p1,
		Parent:          s.a,
		ParentMapper:    c15ParentMapper,
		EntityNotFoundF: c15NotFound,
	})
	s.a1.InitImpl(s.a1)
	s.a2 = boltz.NewBaseStore(boltz.StoreDefinition[*c15Ext2]{
		EntityStrategy:  &c15Ext2Strategy{parent: s.a},
		BasePath:        sh.p2,
		Parent:          s.a,
		ParentMapper:    c15ParentMapper,
		EntityNotFoundF: c15NotFound,
	}).Extended()
	s.a2.InitImpl(s.a2)

	// update delegation: the mapper says "this entity has child data" and hands the child store
	// its stored entity with the shared fields replaced by the caller's
	h1 := &boltz.ChildStoreUpdateHandler[*c15Thing, *c15Ext1]{
		Store: s.a1,
		Mapper: func(ctx boltz.MutateContext, parent *c15Thing) (*c15Ext1, bool) {
			if !s.a1.IsEntityPresent(ctx.Tx(), parent.Id) {
				return nil, false
			}
			child, found, _ := s.a1.FindById(ctx.Tx(), parent.Id)
			if !found || child == nil {
				return nil, false
			}
			child.c15Thing = *parent
			return child, true
		},
	}
	h2 := &boltz.ChildStoreUpdateHandler[*c15Thing, *c15Ext2]{
		Store: s.a2,
		Mapper: func(ctx boltz.MutateContext, parent *c15Thing) (*c15Ext2, bool) {
			if !s.a2.IsEntityPresent(ctx.Tx(), parent.Id) {
				return nil, false
			}
			child, found, _ := s.a2.FindById(ctx.Tx(), parent.Id)
			if !found || child == nil {
				return nil, false
			}
			child.c15Thing = *parent
			return child, true
		},
	}
	if a2First {
		s.a.RegisterChildStoreStrategy(h2)
		s.a.RegisterChildStoreStrategy(h1)
	} else {
		s.a.RegisterChildStoreStrategy(h1)
		s.a.RegisterChildStoreStrategy(h2)
	}

	// entity event listeners on every store (synchronous, delivered by the commit hooks)
	for sel, st := range []boltz.Store{s.a, s.a1, s.a2} {
		sel := sel
		for _, k := range []struct {
			t boltz.EntityEventType
			c string
		}{{boltz.EntityCreated, "c"}, {boltz.EntityUpdated, "u"}, {boltz.EntityDeleted, "d"}} {
			k := k
			st.AddEntityIdListener(func(id string) {
				s.events = append(s.events, strconv.Itoa(sel)+k.c+c15Code("e", id))
			}, k.t)
		}
	}

	// symbols and indexes
	s.a.AddIdSymbol("id", ast.NodeTypeString)
	symName := s.a.AddSymbol("name", ast.NodeTypeString)
	s.nameIdx = s.a.AddUniqueIndex(symName)
	symRoles := s.a.AddSetSymbol("roles", ast.NodeTypeString)
	s.roleIdx = s.a.AddSetIndex(symRoles)

	s.a.GrantSymbols(s.a1)
	symCode := s.a1.AddSymbol("code", ast.NodeTypeString)
	s.codeIdx = s.a1.AddNullableUniqueIndex(symCode)

	s.a.GrantSymbols(s.a2)
	s.a2.AddSymbol("colour", ast.NodeTypeString)
	return s
}

// ---------------------------------------------------------------- case parsing

type c15Op struct {
	kind   byte // c u d
	sel    int
	id     int
	name   int
	roles  []int
	child  *int
	chk    *string // nil = nil checker
	filter string  // DeleteWhere
	source string
}

func c15ParseOp(s string) c15Op {
	f := strings.Split(s, "/")
	op := c15Op{kind: f[0][0], source: s}
	atoi := func(x string) int {
		n, err := strconv.Atoi(x)
		if err != nil {
			panic("bad number in case: " + s)
		}
		return n
	}
	op.sel = atoi(f[1])
	if op.kind == 'w' {
		op.filter = f[2]
		return op
	}
	op.id = atoi(f[2])
	if op.kind == 'd' {
		return op
	}
	op.name = atoi(f[3])
	if f[4] != "-" {
		for _, r := range strings.Split(f[4], ".") {
			op.roles = append(op.roles, atoi(r))
		}
	}
	if f[5] != "n" {
		c := atoi(f[5])
		op.child = &c
	}
	if op.kind == 'u' && f[6] != "*" {
		c := f[6]
		op.chk = &c
	}
	return op
}

func (op *c15Op) thing() c15Thing {
	t := c15Thing{Id: c15IdS(op.id), Name: c15ValS(op.name)}
	for _, r := range op.roles {
		t.Roles = append(t.Roles, c15RoleS(r))
	}
	return t
}

func (op *c15Op) childVal() *string {
	if op.child == nil {
		return nil
	}
	v := c15ValS(*op.child)
	return &v
}

func (op *c15Op) checker() boltz.FieldChecker {
	if op.chk == nil {
		return nil
	}
	m := boltz.MapFieldChecker{}
	if strings.Contains(*op.chk, "n") {
		m["name"] = struct{}{}
	}
	if strings.Contains(*op.chk, "r") {
		m["roles"] = struct{}{}
	}
	if strings.Contains(*op.chk, "c") {
		m["code"] = struct{}{}
		m["colour"] = struct{}{}
	}
	return m
}

func c15ErrStr(err error) string {
	if err == nil {
		return "ok"
	}
	var dup *boltz.UniqueIndexDuplicateError
	if errors.As(err, &dup) {
		return "dup:" + dup.Field
	}
	if boltz.IsErrNotFoundErr(err) {
		return "notfound"
	}
	if errors.Is(err, errC15ReservedName) {
		return "invalid:name"
	}
	if errors.Is(err, errC15TooManyRoles) {
		return "invalid:roles"
	}
	msg := err.Error()
	switch {
	case strings.Contains(msg, "blank id"):
		return "blank"
	case strings.Contains(msg, "already exists with id"):
		return "exists"
	case strings.Contains(msg, "does not allow null or empty values"):
		return "nonnull"
	}
	return "other:" + toWire(msg)
}

func (s *c15Stores) apply(ctx boltz.MutateContext, op *c15Op) error {
	switch op.kind {
	case 'c':
		t := op.thing()
		switch op.sel {
		case 0:
			return s.a.Create(ctx, &t)
		case 1:
			return s.a1.Create(ctx, &c15Ext1{c15Thing: t, Code: op.childVal()})
		default:
			return s.a2.Create(ctx, &c15Ext2{c15Thing: t, Colour: op.childVal()})
		}
	case 'u':
		t := op.thing()
		switch op.sel {
		case 0:
			return s.a.Update(ctx, &t, op.checker())
		case 1:
			return s.a1.Update(ctx, &c15Ext1{c15Thing: t, Code: op.childVal()}, op.checker())
		default:
			return s.a2.Update(ctx, &c15Ext2{c15Thing: t, Colour: op.childVal()}, op.checker())
		}
	case 'w':
		text, ok := c15FilterText[op.filter]
		if !ok {
			panic("bad filter in case: " + op.source)
		}
		return []boltz.Store{s.a, s.a1, s.a2}[op.sel].DeleteWhere(ctx, text)
	default:
		switch op.sel {
		case 0:
			return s.a.DeleteById(ctx, c15IdS(op.id))
		case 1:
			return s.a1.DeleteById(ctx, c15IdS(op.id))
		default:
			return s.a2.DeleteById(ctx, c15IdS(op.id))
		}
	}
}

// ---------------------------------------------------------------- observations

func c15NatList(xs []string) string {
	if len(xs) == 0 {
		return "-"
	}
	return strings.Join(xs, ".")
}

func c15Ids(ids []string) string {
	var out []string
	for _, id := range ids {
		out = append(out, c15Code("e", id))
	}
	return c15NatList(out)
}

func c15OptVal(v *string) string {
	if v == nil {
		return "n"
	}
	return c15Code("v", *v)
}

func c15ThingStr(t *c15Thing) string {
	var roles []string
	for _, r := range t.Roles {
		roles = append(roles, c15Code("r", r))
	}
	return c15Code("v", t.Name) + "/" + c15NatList(roles)
}

func c15Cursor(c ast.SetCursor) []string {
	var out []string
	for c.IsValid() {
		out = append(out, string(c.Current()))
		c.Next()
	}
	return out
}

func (s *c15Stores) observe(tx *bbolt.Tx) string {
	var b strings.Builder
	b.WriteString("F")
	for sel := 0; sel < 3; sel++ {
		for id := 1; id <= c15NIds; id++ {
			fmt.Fprintf(&b, " %d.%d=", sel, id)
			var str string
			switch sel {
			case 0:
				e, found, err := s.a.FindById(tx, c15IdS(id))
				if err != nil {
					str = "err:" + toWire(err.Error())
				} else if !found {
					str = "-"
				} else {
					str = c15ThingStr(e) + "/_"
				}
			case 1:
				e, found, err := s.a1.FindById(tx, c15IdS(id))
				if err != nil {
					str = "err:" + toWire(err.Error())
				} else if !found {
					str = "-"
				} else {
					str = c15ThingStr(&e.c15Thing) + "/" + c15OptVal(e.Code)
				}
			default:
				e, found, err := s.a2.FindById(tx, c15IdS(id))
				if err != nil {
					str = "err:" + toWire(err.Error())
				} else if !found {
					str = "-"
				} else {
					str = c15ThingStr(&e.c15Thing) + "/" + c15OptVal(e.Colour)
				}
			}
			b.WriteString(str)
		}
	}
	// every lookup API per store and id: LoadById | LoadEntity | IsEntityPresent, GetEntityBucket != nil
	b.WriteString(" L")
	for sel := 0; sel < 3; sel++ {
		for id := 1; id <= c15NIds; id++ {
			fmt.Fprintf(&b, " %d.%d=%s", sel, id, s.lookups(tx, sel, c15IdS(id)))
		}
	}
	stores := []boltz.Store{s.a, s.a1, s.a2}
	queries := [][2]string{{"t", "true"}, {"n1", `name = "v1"`}, {"r1", `anyOf(roles) = "r1"`}, {"s", "true sort by name"}}
	b.WriteString(" Q")
	for sel, st := range stores {
		for _, q := range queries {
			ids, count, err := st.QueryIds(tx, q[1])
			if err != nil {
				fmt.Fprintf(&b, " %d.%s=err:%s", sel, q[0], toWire(err.Error()))
				continue
			}
			fmt.Fprintf(&b, " %d.%s=%s", sel, q[0], c15Ids(ids))
			if int(count) != len(ids) {
				fmt.Fprintf(&b, "#%d", count)
			}
		}
	}
	b.WriteString(" I")
	for sel, st := range stores {
		fmt.Fprintf(&b, " %d.i=%s", sel, c15Ids(c15Cursor(st.IterateIds(tx, ast.BoolNodeTrue))))
		fmt.Fprintf(&b, " %d.v=%s", sel, c15Ids(c15Cursor(st.IterateValidIds(tx, ast.BoolNodeTrue))))
	}
	b.WriteString(" X")
	for v := 1; v <= c15NVals; v++ {
		id := s.nameIdx.Read(tx, []byte(c15ValS(v)))
		if id == nil {
			fmt.Fprintf(&b, " n.%d=-", v)
		} else {
			fmt.Fprintf(&b, " n.%d=%s", v, c15Code("e", string(id)))
		}
	}
	for v := 1; v <= c15NVals; v++ {
		var ids []string
		s.roleIdx.Read(tx, []byte(c15RoleS(v)), func(val []byte) { ids = append(ids, string(val)) })
		sort.Strings(ids)
		fmt.Fprintf(&b, " r.%d=%s", v, c15Ids(ids))
	}
	for v := 1; v <= c15NVals; v++ {
		id := s.codeIdx.Read(tx, []byte(c15ValS(v)))
		if id == nil {
			fmt.Fprintf(&b, " c.%d=-", v)
		} else {
			fmt.Fprintf(&b, " c.%d=%s", v, c15Code("e", string(id)))
		}
	}
	b.WriteString(" D ")
	b.WriteString(c15Dump(tx))
	return b.String()
}

func (s *c15Stores) lookups(tx *bbolt.Tx, sel int, id string) string {
	var byId, filled string
	var store boltz.Store
	render := func(t *c15Thing, child string) string { return c15ThingStr(t) + "/" + child }
	switch sel {
	case 0:
		store = s.a
		if e, err := s.a.LoadById(tx, id); err != nil {
			byId = c15ErrStr(err)
		} else {
			byId = render(e, "_")
		}
		e := &c15Thing{}
		if found, err := s.a.LoadEntity(tx, id, e); err != nil {
			filled = "err:" + toWire(err.Error())
		} else if !found {
			filled = "-"
		} else if e.Id != id {
			filled = "wrong-id"
		} else {
			filled = render(e, "_")
		}
	case 1:
		store = s.a1
		if e, err := s.a1.LoadById(tx, id); err != nil {
			byId = c15ErrStr(err)
		} else {
			byId = render(&e.c15Thing, c15OptVal(e.Code))
		}
		e := &c15Ext1{}
		if found, err := s.a1.LoadEntity(tx, id, e); err != nil {
			filled = "err:" + toWire(err.Error())
		} else if !found {
			filled = "-"
		} else if e.Id != id {
			filled = "wrong-id"
		} else {
			filled = render(&e.c15Thing, c15OptVal(e.Code))
		}
	default:
		store = s.a2
		if e, err := s.a2.LoadById(tx, id); err != nil {
			byId = c15ErrStr(err)
		} else {
			byId = render(&e.c15Thing, c15OptVal(e.Colour))
		}
		e := &c15Ext2{}
		if found, err := s.a2.LoadEntity(tx, id, e); err != nil {
			filled = "err:" + toWire(err.Error())
		} else if !found {
			filled = "-"
		} else if e.Id != id {
			filled = "wrong-id"
		} else {
			filled = render(&e.c15Thing, c15OptVal(e.Colour))
		}
	}
	flags := "-"
	if store.IsEntityPresent(tx, id) {
		flags = "P"
	}
	if store.GetEntityBucket(tx, []byte(id)) != nil {
		flags += "B"
	} else {
		flags += "-"
	}
	return byId + "|" + filled + "|" + flags
}

type c15DumpVisitor struct{ lines []string }

func c15Esc(b []byte) string {
	var sb strings.Builder
	for _, c := range b {
		if c > 0x20 && c < 0x7f && c != '\\' && c != ',' && c != ';' && c != '=' {
			sb.WriteByte(c)
		} else {
			fmt.Fprintf(&sb, "\\x%02x", c)
		}
	}
	return sb.String()
}

func (v *c15DumpVisitor) VisitBucket(path string, key []byte, _ *bbolt.Bucket) bool {
	v.lines = append(v.lines, path+"/"+c15Esc(key)+"/")
	return true
}

func (v *c15DumpVisitor) VisitKeyValue(path string, key, value []byte) bool {
	v.lines = append(v.lines, path+"/"+c15Esc(key)+"="+c15Esc(value))
	return true
}

func c15Dump(tx *bbolt.Tx) string {
	v := &c15DumpVisitor{}
	boltz.Traverse(tx, "", v)
	sort.Strings(v.lines)
	return strings.Join(v.lines, ",")
}

// ---------------------------------------------------------------- executor

func c15Exec(line string) string {
	f := fields(line)
	if len(f) < 2 {
		return "bad-case"
	}
	if strings.HasPrefix(f[0], "t") { // three-level chain A -> C -> G (c15_depth.go)
		return c15ChainExec(f)
	}
	kind, shape, ok := c15ParseKind(f[0])
	if !ok || (!(len(f) == 2 && (kind == "h" || kind == "g")) && !(len(f) == 3 && kind == "k")) {
		return "bad-case"
	}
	// boltz.Open offers no NoSync option: one fsync per transaction; a memory-backed directory, where
	// there is one, makes the run three times faster (same outputs)
	dir, err := os.MkdirTemp("/dev/shm", "verif-*")
	if err != nil {
		dir, err = os.MkdirTemp("", "verif-*")
	}
	if err != nil {
		panic(err)
	}
	defer os.RemoveAll(dir)
	db, err := boltz.Open(filepath.Join(dir, "c15.db"), shape.base[0])
	if err != nil {
		panic(err)
	}
	defer func() { _ = db.Close() }()

	s := c15NewStores(kind == "g", shape) // g: the extended child store registered before the plain one
	err = db.Update(nil, func(ctx boltz.MutateContext) error {
		// the entities bucket exists from the start, as after any first create
		if b := boltz.GetOrCreatePath(ctx.Tx(), append(append([]string{}, shape.base...), "things")...); b.HasError() {
			return b.GetError()
		}
		holder := &c15ErrHolder{}
		s.a.InitializeIndexes(ctx.Tx(), holder)
		s.a1.InitializeIndexes(ctx.Tx(), holder)
		s.a2.InitializeIndexes(ctx.Tx(), holder)
		return holder.err
	})
	if err != nil {
		panic(err)
	}

	var segs []string
	for _, txs := range strings.Split(f[1], ";") {
		var ops []c15Op
		for _, o := range strings.Split(txs, ",") {
			ops = append(ops, c15ParseOp(o))
		}
		var res []string
		s.events = nil
		err := db.Update(boltz.NewMutateContext(context.Background()), func(ctx boltz.MutateContext) error {
			for i := range ops {
				e := s.apply(ctx, &ops[i])
				res = append(res, c15ErrStr(e))
				if e != nil {
					return e
				}
			}
			return nil
		})
		seg := strings.Join(res, ",")
		if err == nil {
			seg += " commit "
		} else {
			seg += " abort "
		}
		if len(s.events) == 0 {
			seg += "E - "
		} else {
			seg += "E " + strings.Join(s.events, ",") + " "
		}
		_ = db.View(func(tx *bbolt.Tx) error {
			seg += s.observe(tx)
			return nil
		})
		segs = append(segs, seg)
	}
	if kind == "k" { // cursor scripts and provider queries over the final state (c15_cursor.go)
		_ = db.View(func(tx *bbolt.Tx) error {
			segs = append(segs, s.runItems(tx, f[2]))
			return nil
		})
	}
	return strings.Join(segs, " ;; ")
}

type c15ErrHolder struct{ err error }

func (h *c15ErrHolder) GetError() error { return h.err }
func (h *c15ErrHolder) SetError(err error) bool {
	if err != nil && h.err == nil {
		h.err = err
	}
	return h.err != nil
}
func (h *c15ErrHolder) HasError() bool { return h.err != nil }

// ---------------------------------------------------------------- generator

// what the generator believes exists (it assumes that operations succeed; it is only used to
// steer the choice of ids, stores and values towards populated, mixed states)
type c15GenState struct {
	parent map[int]bool
	c1, c2 map[int]bool
	name   map[int]int // id -> name
	// ids that may exist for all the generator knows (a create was attempted and no single-operation
	// delete transaction followed): histories meant to be free of the known situation never create
	// through a child store over such an id
	maybe map[int]bool
}

func (g *c15GenState) existing() []int {
	var out []int
	for id := 1; id <= c15NIds; id++ {
		if g.parent[id] {
			out = append(out, id)
		}
	}
	return out
}

func (g *c15GenState) absent() []int {
	var out []int
	for id := 1; id <= c15NIds; id++ {
		if !g.parent[id] {
			out = append(out, id)
		}
	}
	return out
}

func (g *c15GenState) nameOk(self int, name int) bool {
	if name == 0 {
		return false
	}
	for id, n := range g.name {
		if id != self && g.parent[id] && n == name {
			return false
		}
	}
	return true
}

func c15Roles(r *rng) string {
	n := r.intn(4)
	if r.chance(1, 14) {
		n = 4 // one more than the parent strategy accepts
	}
	if n == 0 {
		return "-"
	}
	var out []string
	for i := 0; i < n; i++ {
		out = append(out, strconv.Itoa(1+r.intn(3)))
	}
	return strings.Join(out, ".")
}

func c15Child(r *rng) string {
	switch r.intn(7) {
	case 0:
		return "n"
	case 1:
		return "0"
	}
	return strconv.Itoa(1 + r.intn(c15NVals))
}

// a name: mostly one nobody is believed to hold, sometimes a taken one, rarely the empty string
func c15Name(r *rng, g *c15GenState, self int) int {
	if r.chance(1, 16) {
		return 0
	}
	if r.chance(1, 20) {
		return 9 // the name the parent strategy refuses
	}
	taken := map[int]bool{}
	for id, n := range g.name {
		if id != self && g.parent[id] {
			taken[n] = true
		}
	}
	var free []int
	for n := 1; n <= c15NVals; n++ {
		if !taken[n] {
			free = append(free, n)
		}
	}
	if len(free) > 0 && r.chance(3, 4) {
		return pick(r, free)
	}
	return 1 + r.intn(c15NVals)
}

func c15Chk(r *rng) string {
	if r.chance(2, 5) {
		return "*"
	}
	var sb strings.Builder
	for _, c := range "nrc" {
		if r.chance(1, 2) {
			sb.WriteRune(c)
		}
	}
	if sb.Len() == 0 {
		return "-"
	}
	return sb.String()
}

func c15AnyId(r *rng) int {
	if r.chance(1, 12) {
		return 0
	}
	return 1 + r.intn(c15NIds)
}

// one operation; allowFinding: deliberately seek a child-store create over an id that (as far as
// the generator can tell) exists without that child's data (the situation repaired by 8269ce9)
func c15GenOp(r *rng, g *c15GenState, allowFinding bool, solo bool) string {
	k := r.intn(20)
	if len(g.existing()) == 0 && r.chance(9, 10) {
		k = 0 // nothing to update or delete yet
	}
	if k >= 16 && r.chance(1, 4) { // DeleteWhere instead of DeleteById
		sel := r.intn(3)
		f := pick(r, []string{"t", "n1", "r1", "r1"})
		for _, id := range g.existing() {
			owned := sel != 1 || g.c1[id]
			if owned && (f == "t" || (f == "n1" && g.name[id] == 1) || (f == "r1" && r.chance(1, 2))) {
				delete(g.parent, id)
				delete(g.c1, id)
				delete(g.c2, id)
				delete(g.name, id)
			}
		}
		return fmt.Sprintf("w/%d/%s", sel, f)
	}
	switch {
	case k < 7: // create
		sel := r.intn(3)
		id := c15AnyId(r)
		if abs := g.absent(); len(abs) > 0 && r.chance(4, 5) {
			id = pick(r, abs)
		}
		if sel != 0 && g.maybe[id] && !allowFinding {
			sel = 0 // avoid the known situation
		}
		if allowFinding && r.chance(1, 6) { // extend an existing entity through a child store
			if ex := g.existing(); len(ex) > 0 {
				id = pick(r, ex)
				sel = 1 + r.intn(2)
				if sel == 1 && g.c1[id] && !g.c2[id] {
					sel = 2
				} else if sel == 2 && g.c2[id] && !g.c1[id] {
					sel = 1
				}
			}
		}
		if id != 0 {
			g.maybe[id] = true
		}
		name := c15Name(r, g, id)
		already := g.parent[id] && (sel == 0 || (sel == 1 && g.c1[id]) || (sel == 2 && g.c2[id]))
		if id != 0 && !already && g.nameOk(id, name) {
			g.parent[id] = true
			g.name[id] = name
			if sel == 1 {
				g.c1[id] = true
			}
			if sel == 2 {
				g.c2[id] = true
			}
		}
		return fmt.Sprintf("c/%d/%d/%d/%s/%s", sel, id, name, c15Roles(r), c15Child(r))
	case k < 16: // update / patch
		id := c15AnyId(r)
		if ex := g.existing(); len(ex) > 0 && r.chance(9, 10) {
			id = pick(r, ex)
		}
		sel := r.intn(3)
		if r.chance(17, 20) { // through a store the entity is believed to have data in
			var cands []int
			cands = append(cands, 0)
			if g.c1[id] {
				cands = append(cands, 1, 1)
			}
			if g.c2[id] {
				cands = append(cands, 2, 2)
			}
			sel = pick(r, cands)
		}
		name := c15Name(r, g, id)
		chk := c15Chk(r)
		if g.parent[id] && (chk == "*" || strings.Contains(chk, "n")) && g.nameOk(id, name) {
			g.name[id] = name
		}
		return fmt.Sprintf("u/%d/%d/%d/%s/%s/%s", sel, id, name, c15Roles(r), c15Child(r), chk)
	default:
		id := c15AnyId(r)
		if ex := g.existing(); len(ex) > 0 && r.chance(9, 10) {
			id = pick(r, ex)
		}
		delete(g.parent, id)
		delete(g.c1, id)
		delete(g.c2, id)
		delete(g.name, id)
		if solo {
			delete(g.maybe, id) // whether it succeeds or reports not-found, the id is absent afterwards
		}
		return fmt.Sprintf("d/%d/%d", r.intn(3), id)
	}
}

func c15GenHist(r *rng, ntx int, allowFinding bool) string {
	g := &c15GenState{parent: map[int]bool{}, c1: map[int]bool{}, c2: map[int]bool{}, name: map[int]int{}, maybe: map[int]bool{}}
	var txs []string
	for i := 0; i < ntx; i++ {
		nops := 1
		if r.chance(1, 4) {
			nops = 2 + r.intn(2)
		}
		var ops []string
		for j := 0; j < nops; j++ {
			ops = append(ops, c15GenOp(r, g, allowFinding, nops == 1))
		}
		txs = append(txs, strings.Join(ops, ","))
	}
	return "h " + strings.Join(txs, ";")
}

// well-formed shapes of the layering (child paths non-empty, neither a prefix of the other, no first
// segment equal to a key of the parent strategy): child data paths of 1, 2 and 3 segments, shared
// prefixes, parent base paths of 1, 2 and 3 segments, segments named like the children's own field keys
var c15Shapes = []c15Shape{
	c15DefaultShape,
	{p1: []string{"ext", "mgr"}, p2: []string{"ext2"}, base: []string{"u"}},
	{p1: []string{"ext1"}, p2: []string{"ext", "tl"}, base: []string{"u"}},
	{p1: []string{"ext", "a"}, p2: []string{"ext", "b"}, base: []string{"u"}},
	{p1: []string{"x", "y", "a"}, p2: []string{"x", "y", "b"}, base: []string{"u", "v"}},
	{p1: []string{"x", "a", "c"}, p2: []string{"x", "b"}, base: []string{"u"}},
	{p1: []string{"d1", "d2", "d3"}, p2: []string{"e1"}, base: []string{"u", "v", "w"}},
	{p1: []string{"code"}, p2: []string{"colour"}, base: []string{"u"}},
	{p1: []string{"ext", "code"}, p2: []string{"ext", "colour", "z"}, base: []string{"u", "v"}},
}

// the cases of c15GenCases, each with a shape drawn for it: the first 4 * len(c15Shapes) cycle through the
// pool, then half keep the default shape and half take a random one
func c15Gen(tier string, seed uint64, out *bufio.Writer) {
	var buf bytes.Buffer
	w := bufio.NewWriter(&buf)
	c15GenCases(tier, seed, w)
	_ = w.Flush()
	r := newRng(seed ^ 0x5ca1ab1e)
	for i, line := range strings.Split(strings.TrimRight(buf.String(), "\n"), "\n") {
		if line == "" {
			continue
		}
		if line[0] == 't' { // three-level chain cases carry their own configuration token
			fmt.Fprintln(out, line)
			continue
		}
		sh := c15DefaultShape
		if i < 4*len(c15Shapes) {
			sh = c15Shapes[i%len(c15Shapes)]
		} else if r.chance(1, 2) {
			sh = pick(r, c15Shapes)
		}
		fmt.Fprintln(out, sh.token(line[:1])+line[1:])
	}
}

func c15GenCases(tier string, seed uint64, out *bufio.Writer) {
	// newRng's states for consecutive seeds are one step apart on the same splitmix sequence
	// (the streams are shifted copies of each other); jump to an unrelated state instead
	r := newRng(seed)
	r.s = r.next()*0x2545F4914F6CDD1D ^ (seed << 32)
	n := 600
	if tier == "thorough" {
		n = 12000
	}
	// bounded-exhaustive core: every pair of routes for create-then-{update,patch,delete,create} on one id,
	// with a plain-parent entity and an A1 entity holding the competing names (mixed population)
	for cs := 0; cs < 3; cs++ {
		for os_ := 0; os_ < 3; os_++ {
			for _, second := range []string{"u/%d/1/2/2/2/*", "u/%d/1/3/-/n/n", "u/%d/1/4/1.3/1/rc", "u/%d/1/4/3/3/*", "d/%d/1", "c/%d/1/2/2/1"} {
				fmt.Fprintf(out, "h c/0/2/3/1/n;c/1/3/2/2/3;c/%d/1/1/1.2/1;%s;d/0/2\n", cs, fmt.Sprintf(second, os_))
				fmt.Fprintf(out, "g c/0/2/3/1/n;c/1/3/2/2/3;c/%d/1/1/1.2/1;%s;d/0/2\n", cs, fmt.Sprintf(second, os_))
			}
		}
	}
	// DeleteWhere through every store with every filter over a mixed population (plain parents 2 and 4,
	// A1 entity 3, A2 entity 1), then the freed name is taken again
	for sel := 0; sel < 3; sel++ {
		for _, f := range []string{"t", "n1", "r1"} {
			for _, kind := range []string{"h", "g"} {
				fmt.Fprintf(out, "%s c/0/2/3/1/n;c/1/3/2/2.1/3;c/2/1/1/1.2/1;c/0/4/4/-/n;w/%d/%s;c/0/4/1/-/n,c/1/2/2/3/3\n", kind, sel, f)
			}
		}
	}
	// shared-field values the parent strategy refuses (name 9, four roles), through every route: create
	// through each store; update / patch of an entity created through cs issued through the parent and through cs
	for cs := 0; cs < 3; cs++ {
		fmt.Fprintf(out, "h c/%d/2/9/1/1;c/%d/2/2/1.1.2.3/1;c/%d/2/9/1.2.3.1/n;c/%d/2/2/1.2.3/2\n", cs, cs, cs, cs)
		for _, route := range []int{0, cs} {
			for _, u := range []string{"u/%d/1/9/2/1/*", "u/%d/1/2/1.2.3.1/1/*", "u/%d/1/9/2/1/r", "u/%d/1/2/1.2.3.1/1/n", "u/%d/1/9/1.2.3.1/1/nr", "u/%d/1/9/1.2.3.1/1/c", "u/%d/1/0/1.2.3.1/1/*"} {
				fmt.Fprintf(out, "h c/%d/1/1/1/1;%s;u/%d/1/3/3/3/*\n", cs, fmt.Sprintf(u, route), route)
			}
		}
	}
	for i := 0; i < n; i++ {
		ntx := 4 + r.intn(9)
		allow := true // child-store creates over existing parent entities are ordinary input
		fmt.Fprintln(out, c15GenHist(r, ntx, allow))
	}
	c15GenCursorCases(tier, r, out)
	// the other registration order of the two child stores (delete fan-out and update delegation
	// walk the strategies in that order): random histories, entities carrying data of both child
	// stores included (1 create in 6 extends an existing entity through a child store)
	for i := 0; i < n/4; i++ {
		fmt.Fprintln(out, "g"+c15GenHist(r, 4+r.intn(9), true)[1:])
	}
	// paged walks (compiled queries with skip / limit handed to IterateIds / IterateValidIds / QueryIds)
	c15GenPagedCases(tier, r, out)
	// three-level chains A -> C -> G (appended last: the earlier streams are unchanged)
	c15GenChainCases(tier, r, out)
}
