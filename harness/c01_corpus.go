package main

import (
	"bufio"

	"github.com/openziti/storage/ast"
)

// `harness c01 gen -tier corpus` prints the hand-made minimal cases kept in /verif/corpus/c01
// (one per past failure: reverted fixes, known findings, boundary inputs of mutations).
func c01GenCorpus(out *bufio.Writer) {
	sym := func(n string) *c01Node { return &c01Node{kind: "sym", name: n} }
	fn := func(f, n string) *c01Node { return &c01Node{kind: "fn", fn: f, name: n} }
	str := func(s string) c01Lit { return c01Lit{kind: 's', s: s} }
	num := func(i int64) c01Lit { return c01Lit{kind: 'i', i: i} }
	cmp := func(op string, l *c01Node, lit c01Lit) *c01Node { return &c01Node{kind: "cmp", op: op, l: l, lit: lit} }
	mem := func(vals map[string]c01Val, sets map[string][]c01Val, f *c01Node) {
		row := &c01Row{scalars: map[string]c01Val{}, sets: map[string][]c01Val{}}
		for _, s := range c01MemSyms {
			if s.isSet {
				row.sets[s.name] = c01SortSet(sets[s.name])
			} else if v, ok := vals[s.name]; ok {
				row.scalars[s.name] = v
			} else {
				row.scalars[s.name] = c01Nil()
			}
		}
		out.WriteString(c01MemLine(c01MemSyms, []*c01Row{row}, f))
		out.WriteByte('\n')
	}
	strs := func(ss ...string) []c01Val {
		var r []c01Val
		for _, s := range ss {
			r = append(r, c01Str(s))
		}
		return r
	}
	// 177635a: anyOf(set) != value must not take the seek shortcut
	mem(nil, map[string][]c01Val{"ss": strs("a", "b")}, cmp("ne", fn("anyOf", "ss"), str("a")))
	mem(nil, map[string][]c01Val{"ss": strs("a")}, cmp("ne", fn("anyOf", "ss"), str("a")))
	// the shortcut itself: value absent but a larger element present / value present
	mem(nil, map[string][]c01Val{"ss": strs("b", "c")}, cmp("eq", fn("anyOf", "ss"), str("a")))
	mem(nil, map[string][]c01Val{"ss": strs("a", "b", "c")}, cmp("eq", fn("anyOf", "ss"), str("b")))
	mem(nil, map[string][]c01Val{"ss": strs("5")}, cmp("eq", fn("anyOf", "ss"), num(5)))
	// 0f0ee62: icontains on a null field
	mem(nil, nil, cmp("icontains", sym("sa"), str("a")))
	mem(nil, nil, cmp("nicontains", sym("sa"), str("a")))
	mem(map[string]c01Val{"sa": c01Str("xAy")}, nil, cmp("icontains", sym("sa"), str("a")))
	// 780e01a: between with number bounds on an any-typed / datetime symbol
	mem(map[string]c01Val{"xa": c01Int64(1)}, nil, &c01Node{kind: "bet", l: sym("xa"), lo: num(1), hi: num(2)})
	mem(map[string]c01Val{"da": c01TimeVal(c01TimeOf(c01Times[0]))}, nil, &c01Node{kind: "bet", l: sym("da"), lo: num(1), hi: num(2)})
	// between: inclusive lower, exclusive upper bound
	mem(map[string]c01Val{"na": c01Int64(1)}, nil, &c01Node{kind: "bet", l: sym("na"), lo: num(1), hi: num(2)})
	mem(map[string]c01Val{"na": c01Int64(2)}, nil, &c01Node{kind: "bet", l: sym("na"), lo: num(1), hi: num(2)})
	// known finding: a null operand compared with true / false
	mem(nil, nil, cmp("eq", sym("ba"), c01Lit{kind: 'b', b: false}))
	mem(nil, nil, cmp("ne", sym("ba"), c01Lit{kind: 'b', b: false}))
	// null rules on the other types
	for _, s := range []string{"sa", "na", "fa", "da"} {
		lit := map[string]c01Lit{"sa": str("a"), "na": num(1), "fa": num(1), "da": {kind: 't', t: c01Times[0]}}[s]
		for _, op := range []string{"eq", "ne", "lt", "ge"} {
			mem(nil, nil, cmp(op, sym(s), lit))
		}
	}

	// the empty string is a value, not null ((TypeString, nil) is how it is stored)
	mem(map[string]c01Val{"sa": c01Str("")}, nil, cmp("eq", sym("sa"), c01Lit{kind: 'n'}))
	mem(map[string]c01Val{"sa": c01Str("")}, nil, cmp("ne", sym("sa"), c01Lit{kind: 'n'}))
	mem(map[string]c01Val{"xa": c01Str("")}, nil, cmp("eq", sym("xa"), c01Lit{kind: 'n'}))
	mem(nil, map[string][]c01Val{"ss": strs("")}, cmp("eq", fn("anyOf", "ss"), c01Lit{kind: 'n'}))
	mem(nil, map[string][]c01Val{"st": strs("", "a")}, cmp("ne", fn("allOf", "st"), c01Lit{kind: 'n'}))
	mem(map[string]c01Val{"sa": c01Str("")}, nil, cmp("eq", sym("sa"), str("")))
	// df4edc3: no seek shortcut on a seekable set that is not string-typed (a number rendering to the compared string)
	mem(nil, map[string][]c01Val{"sx": {c01Int64(7), c01Str("a")}}, cmp("eq", fn("anyOf", "sx"), str("7")))
	mem(nil, map[string][]c01Val{"sn": {c01Int64(5)}}, cmp("eq", fn("anyOf", "sn"), str("5")))
	mem(nil, map[string][]c01Val{"sx": {c01Int64(7), c01Str("a")}}, cmp("eq", fn("anyOf", "sx"), str("a")))
	mem(nil, map[string][]c01Val{"sx": {c01Int64(7), c01Str("a")}}, cmp("eq", fn("anyOf", "sx"), num(7)))
	// the universe with fixed tables behind the external symbols: vip(b2) = true; nick(b1) = nil,
	// nick(b2) = "nb"; calc(b1) = 5
	var corpusStores []c01BStore
	for _, s := range c01Universe {
		c := s
		c.syms = append([]c01BSym{}, s.syms...)
		for i, sym := range c.syms {
			if sym.kind != "ext" {
				continue
			}
			tab := &c01ExtTab{kind: sym.ext.kind, entries: map[string]c01Val{}, dflt: c01Nil()}
			switch sym.name {
			case "vip":
				tab.entries["b2"] = c01Bool(true)
				tab.dflt = c01Bool(false)
			case "nick":
				tab.entries["b2"] = c01Str("nb")
				tab.dflt = c01Str("other")
				tab.entries["b1"] = c01Nil()
			case "calc":
				tab.entries["b1"] = c01Int64(5)
			}
			c.syms[i].ext = tab
		}
		corpusStores = append(corpusStores, c)
	}
	// bolt-backed cases over the universe schema
	ent := func(id string) *c01Entity {
		return &c01Entity{id: id, fields: map[string]c01Val{}, sets: map[string][]c01Val{}, maps: map[string]*c01MNode{}}
	}
	a1, a2 := ent("a1"), ent("a2")
	b1, b2 := ent("b1"), ent("b2")
	a1.fields["name"] = c01Str("n1")
	a1.fields["owner"] = c01Str("b1")
	a1.sets["groups"] = strs("b1", "b2")
	a1.sets["roles"] = strs("x", "y")
	leaf := func(v c01Val) *c01MNode { return &c01MNode{kind: 'v', val: &v} }
	bucket := func(kids map[string]*c01MNode) *c01MNode { return &c01MNode{kind: 'b', kids: kids} }
	a1.maps["tags"] = bucket(map[string]*c01MNode{"k": leaf(c01Int64(5)), "on": leaf(c01Bool(true)),
		"site": bucket(map[string]*c01MNode{"name": leaf(c01Str("z")), "lst": {kind: 'l', list: []*c01MNode{leaf(c01Str("e"))}}})})
	a1.maps["ext"] = bucket(map[string]*c01MNode{"edge": bucket(map[string]*c01MNode{"m": bucket(map[string]*c01MNode{
		"a": bucket(map[string]*c01MNode{"b": bucket(map[string]*c01MNode{"c": leaf(c01Bool(true))})})})})})
	a2.fields["name"] = c01Str("n2")
	a2.sets["groups"] = strs("b2")
	b1.fields["label"] = c01Str("L1")
	b1.fields["boss"] = c01Str("b2")
	b1.fields["rank"] = c01Int64(1)
	b1.sets["members"] = strs("a1", "a2")
	b1.sets["roles"] = strs("r1")
	b2.fields["label"] = c01Str("L2")
	b2.fields["rank"] = c01Int64(2)
	b2.sets["roles"] = strs("r1", "r2")
	ds := &c01Dataset{stores: corpusStores, rows: [][]*c01Entity{{a1, a2}, {b1, b2}, {}, {}}}
	bolt := func(root int, f *c01Node) {
		out.WriteString(c01BoltLine(ds, root, f))
		out.WriteByte('\n')
	}
	sub := func(f, n string, q *c01Node, skip, limit *int64) *c01Node {
		return &c01Node{kind: "sub", fn: f, name: n, q: q, skip: skip, limit: limit}
	}
	one := int64(1)
	// 11485f3: count(from s where q) keeps its sub-query
	bolt(0, cmp("eq", sub("count", "groups", cmp("eq", sym("label"), str("L2")), nil, nil), num(1)))
	bolt(0, cmp("eq", sub("count", "groups", &c01Node{kind: "bc", b: true}, &one, nil), num(1)))
	bolt(0, cmp("eq", sub("count", "groups", &c01Node{kind: "bc", b: true}, nil, &one), num(1)))
	bolt(0, sub("isEmpty", "groups", cmp("eq", sym("label"), str("L1")), nil, nil))
	// dotted symbols, stacked cursors, map elements
	bolt(0, cmp("eq", sym("owner.label"), str("L1")))
	bolt(0, cmp("eq", sym("owner.boss.label"), str("L2")))
	bolt(0, cmp("eq", fn("anyOf", "groups.label"), str("L2")))
	bolt(0, cmp("eq", fn("count", "groups.roles"), num(3)))
	bolt(0, cmp("eq", fn("anyOf", "groups.roles"), str("r2")))
	bolt(0, cmp("eq", fn("anyOf", "owner.members.name"), str("n2")))
	bolt(0, cmp("eq", fn("anyOf", "roles"), str("y")))
	bolt(0, cmp("ne", fn("anyOf", "roles"), str("x")))
	bolt(0, cmp("eq", sym("tags.k"), num(5)))
	bolt(0, cmp("eq", sym("tags.on"), c01Lit{kind: 'b', b: true}))
	// the empty string is a value, not null: rowCursorImpl.IsNil goes by the stored type
	a2.fields["alias"] = c01Str("")
	a2.sets["roles"] = strs("", "z")
	bolt(0, cmp("eq", sym("alias"), c01Lit{kind: 'n'}))
	bolt(0, cmp("ne", sym("alias"), c01Lit{kind: 'n'}))
	bolt(0, cmp("eq", sym("alias"), str("")))
	bolt(0, cmp("eq", fn("anyOf", "roles"), c01Lit{kind: 'n'}))
	bolt(0, cmp("ne", fn("allOf", "roles"), c01Lit{kind: 'n'}))
	bolt(1, cmp("eq", fn("anyOf", "members.alias"), c01Lit{kind: 'n'}))
	// nested map elements, a map symbol behind a two-bucket prefix, elements that are maps / lists / missing
	bolt(0, cmp("eq", sym("tags.site.name"), str("z")))
	bolt(0, cmp("eq", sym("meta.a.b.c"), c01Lit{kind: 'b', b: true}))
	bolt(0, cmp("eq", sym("tags.site"), c01Lit{kind: 'n'}))
	bolt(0, cmp("eq", sym("tags.site.lst"), c01Lit{kind: 'n'}))
	bolt(0, cmp("ne", sym("tags.k.x"), c01Lit{kind: 'n'}))
	bolt(0, cmp("eq", sym("tags.nope.x"), c01Lit{kind: 'n'}))
	bolt(1, cmp("eq", fn("anyOf", "members.tags.site.name"), str("z")))
	bolt(1, cmp("eq", fn("anyOf", "members.meta.a.b.c"), c01Lit{kind: 'b', b: true}))
	bolt(0, cmp("eq", fn("anyOf", "groups.boss"), c01Lit{kind: 'n'}))
	bolt(1, cmp("ge", fn("count", "members"), num(2)))
	// known finding: a set followed by a linked non-set chain
	bolt(0, cmp("eq", fn("anyOf", "groups.boss.label"), str("L2")))
	// 38978b1: a null link among the elements of a sub-query's dotted set symbol is no row (and
	// must not end the scan): member a1 has no owner, a2 is owned by b1
	c1, c2, d1 := ent("a1"), ent("a2"), ent("b1")
	c2.fields["owner"] = c01Str("b1")
	d1.sets["members"] = strs("a1", "a2")
	ds = &c01Dataset{stores: corpusStores, rows: [][]*c01Entity{{c1, c2}, {d1}, {}, {}}}
	bolt(1, cmp("eq", sub("count", "members.owner", &c01Node{kind: "bc", b: true}, nil, nil), num(1)))
	bolt(1, sub("isEmpty", "members.owner", &c01Node{kind: "bc", b: true}, nil, nil))
	bolt(1, cmp("eq", fn("count", "members.owner"), num(2)))
	// known finding: a sub-query over a set followed by two links
	e1, g1, g2, g3 := ent("a1"), ent("b1"), ent("b2"), ent("b3")
	e1.sets["groups"] = strs("b1")
	g1.fields["boss"] = c01Str("b2")
	g2.fields["boss"] = c01Str("b3")
	g3.fields["label"] = c01Str("x")
	ds = &c01Dataset{stores: corpusStores, rows: [][]*c01Entity{{e1}, {g1, g2, g3}, {}, {}}}
	bolt(0, cmp("eq", sub("count", "groups.boss.boss", cmp("eq", sym("label"), str("x")), nil, nil), num(1)))
	bolt(0, cmp("eq", fn("anyOf", "groups.boss.boss.label"), str("x")))
	// child stores: a1 has plain-child data, a2 not; b2 has extension data, b1 not
	p1, p2, q1, q2 := ent("a1"), ent("a2"), ent("b1"), ent("b2")
	k1, x2 := ent("a1"), ent("b2")
	p1.fields["name"] = c01Str("n1")
	p1.fields["alias"] = c01Str("pa")
	p1.sets["kids"] = strs("a1", "a2")
	p1.fields["kidref"] = c01Str("a2")
	p2.fields["name"] = c01Str("n2")
	p2.fields["kidref"] = c01Str("a1")
	p2.maps["ext"] = bucket(map[string]*c01MNode{"edge": bucket(map[string]*c01MNode{"m": bucket(map[string]*c01MNode{"k": leaf(c01Int64(7))})})})
	k1.fields["level"] = c01Int64(5)
	k1.fields["alias"] = c01Str("ka")
	k1.fields["name"] = c01Str("kn")
	q1.fields["label"] = c01Str("L1")
	q1.sets["exts"] = strs("b1", "b2")
	q2.fields["label"] = c01Str("L2")
	x2.fields["note"] = c01Str("x")
	ds = &c01Dataset{stores: corpusStores, rows: [][]*c01Entity{{p1, p2}, {q1, q2}, {k1}, {x2}}}
	tr := &c01Node{kind: "bc", b: true}
	bolt(2, tr)                                       // plain child store: only a1
	bolt(3, tr)                                       // extended child store: b1 and b2
	bolt(3, cmp("eq", sym("note"), c01Lit{kind: 'n'})) // b1 has no extension data
	bolt(2, cmp("eq", sym("name"), str("n1")))        // own `name` registered before GrantSymbols: the parent's wins
	bolt(2, cmp("eq", sym("alias"), str("ka")))       // own `alias` registered after: the child's wins
	bolt(2, cmp("eq", sym("m.k"), c01Lit{kind: 'n'}))  // the parent's map symbol `meta` is inherited under its key `m`
	bolt(0, cmp("eq", sub("count", "kids", tr, nil, nil), num(1)))  // a2 is linked but has no child data
	bolt(0, cmp("eq", fn("count", "kids"), num(2)))
	bolt(0, cmp("eq", sym("kidref.level"), num(5)))
	bolt(0, cmp("eq", sym("kidref.name"), str("n2")))
	bolt(1, cmp("eq", sub("count", "exts", tr, nil, nil), num(2))) // extended: rows without extension data count
	bolt(1, cmp("eq", sub("count", "exts", cmp("eq", sym("note"), c01Lit{kind: 'n'}), nil, nil), num(1)))
	// sort by inside a sub-query: validated and typed, never consulted by the scanner
	ds = &c01Dataset{stores: corpusStores, rows: [][]*c01Entity{{a1, a2}, {b1, b2}, {}, {}}}
	two := int64(2)
	sorted := func(q *c01Node, skip, limit *int64, fields ...c01Sort) *c01Node {
		n := sub("count", "groups", q, skip, limit)
		n.sort = fields
		return n
	}
	bolt(0, cmp("eq", sorted(tr, nil, &one, c01Sort{"label", "desc"}), num(1)))
	bolt(0, cmp("eq", sorted(tr, &one, nil, c01Sort{"rank", ""}, c01Sort{"label", "asc"}), num(1)))
	bolt(0, cmp("eq", sorted(cmp("ne", sym("label"), str("zz")), &one, &two, c01Sort{"label", "desc"}), num(1)))
	bolt(0, cmp("eq", sorted(tr, nil, nil, c01Sort{"nosuch", ""}), num(2)))              // unknown sort field: rejected
	bolt(0, cmp("eq", sorted(tr, nil, nil, c01Sort{"roles", ""}), num(2)))               // a set symbol as sort field: accepted (flag still set)
	bolt(0, cmp("eq", sorted(cmp("eq", fn("count", "roles"), num(1)), nil, nil, c01Sort{"roles", ""}), num(1))) // ... rejected after a set function
	bolt(0, cmp("eq", sorted(tr, nil, nil, c01Sort{"tags.k", "desc"}), num(2)))          // any-typed sort field: accepted
	// custom symbols: external functions and mapped symbols.  a1 -> boss a2, owner b1; a2 -> groups {b1, b2},
	// owner b2; a3 has no owner
	u1, u2, u3, v1, v2 := ent("a1"), ent("a2"), ent("a3"), ent("b1"), ent("b2")
	u1.fields["boss"] = c01Str("a2")
	u1.fields["owner"] = c01Str("b1")
	u1.fields["mowner"] = c01Str("b1")
	u1.fields["fx"] = c01Bool(true)
	u2.fields["owner"] = c01Str("b2")
	u2.sets["groups"] = strs("b1", "b2")
	v1.fields["mlab"] = c01Str("x")
	v1.fields["label"] = c01Str("x")
	v2.fields["mlab"] = c01Str("y")
	v2.fields["mrank"] = c01Int64(3)
	ds = &c01Dataset{stores: corpusStores, rows: [][]*c01Entity{{u1, u2, u3}, {v1, v2}, {}, {}}}
	tt, ff := c01Lit{kind: 'b', b: true}, c01Lit{kind: 'b', b: false}
	null := c01Lit{kind: 'n'}
	bolt(1, cmp("eq", sym("vip"), tt))
	bolt(1, sym("vip"))
	bolt(1, cmp("eq", sym("nick"), str("nb")))
	bolt(1, cmp("eq", sym("calc"), num(5)))
	bolt(1, cmp("eq", sym("calc"), null))
	bolt(1, cmp("eq", sym("mlabel"), str("Mx")))
	bolt(1, cmp("eq", sym("mrank"), null))                 // NotNilStringMapper: a null rank reads as ""
	bolt(1, cmp("eq", sym("mrank"), num(3)))
	bolt(0, cmp("eq", sym("flagx"), ff))                   // the negating mapper
	bolt(0, cmp("eq", sym("mowner"), str("b1")))
	bolt(0, cmp("eq", sym("mowner"), str("")))
	bolt(0, cmp("eq", sym("mowner.label"), str("x")))      // a mapped fk symbol cannot be followed: unknown symbol
	bolt(0, cmp("eq", sym("owner.mlabel"), str("Mx")))
	bolt(0, cmp("eq", fn("anyOf", "groups.mlabel"), str("My")))
	bolt(0, cmp("eq", fn("anyOf", "groups.vip"), tt))
	bolt(0, cmp("eq", sym("owner.vip"), tt))
	// 5f6f9bb: the tail of set.custom survives a further link; fce0761: a nil string function is null;
	// open finding: an external function behind a null link is evaluated on ""
	bolt(0, cmp("eq", fn("anyOf", "boss.groups.vip"), tt))
	bolt(0, cmp("eq", fn("anyOf", "boss.groups.mlabel"), str("b1")))
	bolt(1, cmp("eq", sym("nick"), null))
	bolt(1, cmp("eq", sym("nick"), str("")))
	bolt(0, cmp("eq", sym("owner.vip"), ff))
	// df4edc3: ... and no seek shortcut over an any-typed bucket that holds a number
	u1.sets["mixed"] = c01SortSet([]c01Val{c01Int64(7), c01Str("a")})
	u1.sets["nums"] = c01SortSet([]c01Val{c01Int64(5)})
	bolt(0, cmp("eq", fn("anyOf", "mixed"), str("7")))
	bolt(0, cmp("eq", fn("anyOf", "nums"), str("5")))
	bolt(0, cmp("eq", fn("anyOf", "mixed"), str("a")))
	bolt(0, cmp("eq", fn("anyOf", "nums"), num(5)))
	bolt(0, cmp("contains", fn("anyOf", "mixed"), str("7")))
	_ = ast.NodeTypeString
}
