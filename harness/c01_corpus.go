package main

import (
	"bufio"

	"github.com/openziti/storage/ast"
)

// `harness c01 gen -tier corpus` prints the hand-made minimal cases kept in /verif/corpus/c01
// (one per past failure: reverted fixes, known findings, boundary inputs of mutations).
func c01GenCorpus(out *bufio.Writer) {
	sym := func(n string) *c01Node { return &c01Node{kind: "sym", name: n} }
	fn := func(f, n string) *c01Node { return &c01Node{kind: "fn", fn: f, name: n} }
	str := func(s string) c01Lit { return c01Lit{kind: 's', s: s} }
	num := func(i int64) c01Lit { return c01Lit{kind: 'i', i: i} }
	cmp := func(op string, l *c01Node, lit c01Lit) *c01Node { return &c01Node{kind: "cmp", op: op, l: l, lit: lit} }
	mem := func(vals map[string]c01Val, sets map[string][]c01Val, f *c01Node) {
		row := &c01Row{scalars: map[string]c01Val{}, sets: map[string][]c01Val{}}
		for _, s := range c01MemSyms {
			if s.isSet {
				row.sets[s.name] = c01SortSet(sets[s.name])
			} else if v, ok := vals[s.name]; ok {
				row.scalars[s.name] = v
			} else {
				row.scalars[s.name] = c01Nil()
			}
		}
		out.WriteString(c01MemLine(c01MemSyms, []*c01Row{row}, f))
		out.WriteByte('\n')
	}
	strs := func(ss ...string) []c01Val {
		var r []c01Val
		for _, s := range ss {
			r = append(r, c01Str(s))
		}
		return r
	}
	// 177635a: anyOf(set) != value must not take the seek shortcut
	mem(nil, map[string][]c01Val{"ss": strs("a", "b")}, cmp("ne", fn("anyOf", "ss"), str("a")))
	mem(nil, map[string][]c01Val{"ss": strs("a")}, cmp("ne", fn("anyOf", "ss"), str("a")))
	// the shortcut itself: value absent but a larger element present / value present
	mem(nil, map[string][]c01Val{"ss": strs("b", "c")}, cmp("eq", fn("anyOf", "ss"), str("a")))
	mem(nil, map[string][]c01Val{"ss": strs("a", "b", "c")}, cmp("eq", fn("anyOf", "ss"), str("b")))
	mem(nil, map[string][]c01Val{"ss": strs("5")}, cmp("eq", fn("anyOf", "ss"), num(5)))
	// 0f0ee62: icontains on a null field
	mem(nil, nil, cmp("icontains", sym("sa"), str("a")))
	mem(nil, nil, cmp("nicontains", sym("sa"), str("a")))
	mem(map[string]c01Val{"sa": c01Str("xAy")}, nil, cmp("icontains", sym("sa"), str("a")))
	// 780e01a: between with number bounds on an any-typed / datetime symbol
	mem(map[string]c01Val{"xa": c01Int64(1)}, nil, &c01Node{kind: "bet", l: sym("xa"), lo: num(1), hi: num(2)})
	mem(map[string]c01Val{"da": c01TimeVal(c01TimeOf(c01Times[0]))}, nil, &c01Node{kind: "bet", l: sym("da"), lo: num(1), hi: num(2)})
	// between: inclusive lower, exclusive upper bound
	mem(map[string]c01Val{"na": c01Int64(1)}, nil, &c01Node{kind: "bet", l: sym("na"), lo: num(1), hi: num(2)})
	mem(map[string]c01Val{"na": c01Int64(2)}, nil, &c01Node{kind: "bet", l: sym("na"), lo: num(1), hi: num(2)})
	// known finding: a null operand compared with true / false
	mem(nil, nil, cmp("eq", sym("ba"), c01Lit{kind: 'b', b: false}))
	mem(nil, nil, cmp("ne", sym("ba"), c01Lit{kind: 'b', b: false}))
	// null rules on the other types
	for _, s := range []string{"sa", "na", "fa", "da"} {
		lit := map[string]c01Lit{"sa": str("a"), "na": num(1), "fa": num(1), "da": {kind: 't', t: c01Times[0]}}[s]
		for _, op := range []string{"eq", "ne", "lt", "ge"} {
			mem(nil, nil, cmp(op, sym(s), lit))
		}
	}

	// bolt-backed cases over the universe schema
	ent := func(id string) *c01Entity {
		return &c01Entity{id: id, fields: map[string]c01Val{}, sets: map[string][]c01Val{}, maps: map[string]map[string]c01Val{}}
	}
	a1, a2 := ent("a1"), ent("a2")
	b1, b2 := ent("b1"), ent("b2")
	a1.fields["name"] = c01Str("n1")
	a1.fields["owner"] = c01Str("b1")
	a1.sets["groups"] = strs("b1", "b2")
	a1.sets["roles"] = strs("x", "y")
	a1.maps["tags"] = map[string]c01Val{"k": c01Int64(5), "on": c01Bool(true)}
	a2.fields["name"] = c01Str("n2")
	a2.sets["groups"] = strs("b2")
	b1.fields["label"] = c01Str("L1")
	b1.fields["boss"] = c01Str("b2")
	b1.fields["rank"] = c01Int64(1)
	b1.sets["members"] = strs("a1", "a2")
	b1.sets["roles"] = strs("r1")
	b2.fields["label"] = c01Str("L2")
	b2.fields["rank"] = c01Int64(2)
	b2.sets["roles"] = strs("r1", "r2")
	ds := &c01Dataset{stores: c01Universe, rows: [][]*c01Entity{{a1, a2}, {b1, b2}}}
	bolt := func(root int, f *c01Node) {
		out.WriteString(c01BoltLine(ds, root, f))
		out.WriteByte('\n')
	}
	sub := func(f, n string, q *c01Node, skip, limit *int64) *c01Node {
		return &c01Node{kind: "sub", fn: f, name: n, q: q, skip: skip, limit: limit}
	}
	one := int64(1)
	// 11485f3: count(from s where q) keeps its sub-query
	bolt(0, cmp("eq", sub("count", "groups", cmp("eq", sym("label"), str("L2")), nil, nil), num(1)))
	bolt(0, cmp("eq", sub("count", "groups", &c01Node{kind: "bc", b: true}, &one, nil), num(1)))
	bolt(0, cmp("eq", sub("count", "groups", &c01Node{kind: "bc", b: true}, nil, &one), num(1)))
	bolt(0, sub("isEmpty", "groups", cmp("eq", sym("label"), str("L1")), nil, nil))
	// dotted symbols, stacked cursors, map elements
	bolt(0, cmp("eq", sym("owner.label"), str("L1")))
	bolt(0, cmp("eq", sym("owner.boss.label"), str("L2")))
	bolt(0, cmp("eq", fn("anyOf", "groups.label"), str("L2")))
	bolt(0, cmp("eq", fn("count", "groups.roles"), num(3)))
	bolt(0, cmp("eq", fn("anyOf", "groups.roles"), str("r2")))
	bolt(0, cmp("eq", fn("anyOf", "owner.members.name"), str("n2")))
	bolt(0, cmp("eq", fn("anyOf", "roles"), str("y")))
	bolt(0, cmp("ne", fn("anyOf", "roles"), str("x")))
	bolt(0, cmp("eq", sym("tags.k"), num(5)))
	bolt(0, cmp("eq", sym("tags.on"), c01Lit{kind: 'b', b: true}))
	bolt(0, cmp("eq", fn("anyOf", "groups.boss"), c01Lit{kind: 'n'}))
	bolt(1, cmp("ge", fn("count", "members"), num(2)))
	// known finding: a set followed by a linked non-set chain
	bolt(0, cmp("eq", fn("anyOf", "groups.boss.label"), str("L2")))
	// 38978b1: a null link among the elements of a sub-query's dotted set symbol is no row (and
	// must not end the scan): member a1 has no owner, a2 is owned by b1
	c1, c2, d1 := ent("a1"), ent("a2"), ent("b1")
	c2.fields["owner"] = c01Str("b1")
	d1.sets["members"] = strs("a1", "a2")
	ds = &c01Dataset{stores: c01Universe, rows: [][]*c01Entity{{c1, c2}, {d1}}}
	bolt(1, cmp("eq", sub("count", "members.owner", &c01Node{kind: "bc", b: true}, nil, nil), num(1)))
	bolt(1, sub("isEmpty", "members.owner", &c01Node{kind: "bc", b: true}, nil, nil))
	bolt(1, cmp("eq", fn("count", "members.owner"), num(2)))
	// known finding: a sub-query over a set followed by two links
	e1, g1, g2, g3 := ent("a1"), ent("b1"), ent("b2"), ent("b3")
	e1.sets["groups"] = strs("b1")
	g1.fields["boss"] = c01Str("b2")
	g2.fields["boss"] = c01Str("b3")
	g3.fields["label"] = c01Str("x")
	ds = &c01Dataset{stores: c01Universe, rows: [][]*c01Entity{{e1}, {g1, g2, g3}}}
	bolt(0, cmp("eq", sub("count", "groups.boss.boss", cmp("eq", sym("label"), str("x")), nil, nil), num(1)))
	bolt(0, cmp("eq", fn("anyOf", "groups.boss.boss.label"), str("x")))
	_ = ast.NodeTypeString
}
