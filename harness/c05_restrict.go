package main

// C05, R-cases: G-cases (c05_schema.go) plus
//
//   - a RESTRICTING foreign key between the two root stores (schema suffix `~AB`: A.ref -> B, `~BA`,
//     `~-` none): AddNullableFkIndex(ref, refd) — fkIndex on the referring store, fkDeleteConstraint on
//     the referred one, which refuses DeleteById while back-references exist;
//   - a caller that TOLERATES a refused delete: `dt:X:id` = DeleteById whose error is ignored, the
//     transaction carries on and commits (a refused delete must have changed nothing);
//   - `cr:X:id:target` / `crl:X:id:target:i:keys` = Create through the referring root store with the fk
//     field set (a missing target fails after the links were written: that one must roll back);
//   - `cp:x:id:i:keys` = Create through CHILD store x whose PersistEntity persists the PARENT's link
//     field i on ctx.GetParentContext() (IsCreate inherited) — the parent entity may exist and have links.
//
// Case line:  R <schema>~<fk> <poolA> <poolB> <tx> ...   Output as for G-cases, the dump followed by
// `#F<referrer>><target>;...#I<target><<referrer>;...` (fk field values, back-reference sets).
import (
	"fmt"
	"strconv"
	"strings"
)

func (g *c05Gen_) rline(spec string, pools [2][]string, txs []string) {
	fmt.Fprintf(g.out, "R %s %s %s %s\n", spec, c05Wires(pools[0]), c05Wires(pools[1]), strings.Join(txs, " "))
}

// refusedStream: per collection kind and fk direction, an entity that has links / counts AND is
// referenced; its delete (through root or child store) is refused and tolerated, the transaction
// goes on (another delete that succeeds, a further link operation) and commits; later the referrer
// goes and the delete succeeds.
func (g *c05Gen_) refusedStream() {
	fams := [2][2]string{{"A", "a"}, {"B", "b"}}
	a, ab := toWire("a"), toWire("ab")
	for _, cs := range c05gKinds {
		for fk := 0; fk < 2; fk++ {
			for via := 0; via < 2; via++ {
				src, dst := fk, 1-fk
				spec := g.withNaming([]string{cs})[0]
				if g.r.chance(1, 4) {
					spec += pick(g.r, []string{"@10", "@01", "@11"})
				}
				spec += "~" + []string{"AB", "BA"}[fk]
				tx1 := []string{"c:" + fams[dst][1] + ":" + a, "c:" + fams[dst][1] + ":" + ab,
					"cr:" + fams[src][0] + ":" + a + ":" + a, "c:" + fams[src][1] + ":" + a, "c:" + fams[src][1] + ":" + ab}
				var tx2 []string
				more := ""
				switch cs[0] {
				case 'p':
					tx2 = []string{"al:0:A:" + a + ":" + a + "," + ab, "al:0:A:" + ab + ":" + a}
					more = "a1:0:B:" + ab + ":" + ab
				case 'r':
					tx2 = []string{"inc:0:A:" + a + ":" + a, "inc:0:B:" + a + ":" + a, "inc:0:A:" + ab + ":" + a, "inc:0:A:" + a + ":" + ab}
					more = "inc:0:B:" + ab + ":" + ab
				default:
					tx2 = []string{"al:0:A:" + a + ":" + a + "," + ab}
					more = "a1:0:A:" + ab + ":" + ab
				}
				x := fams[dst][via]
				tx3 := []string{"dt:" + x + ":" + a, more, "dt:" + x + ":" + ab}
				if g.r.chance(1, 2) {
					tx3 = []string{"dt:" + x + ":" + ab, "dt:" + x + ":" + a, more}
				}
				txs := []string{strings.Join(tx1, ";"), strings.Join(tx2, ";"), strings.Join(tx3, ";"),
					"d:" + fams[src][g.r.intn(2)] + ":" + a, "dt:" + x + ":" + a + ";c:" + fams[dst][1] + ":" + a}
				g.rline(spec, [2][]string{{"a", "ab"}, {"a", "ab"}}, txs)
			}
		}
	}
}

// cpStream: an entity of a ROOT store with links `cur` in a collection of that store, then Create
// through the child store for the same id asking (on the parent context) for `req`: afterwards the
// links must be exactly req, on both sides.  cur over subsets of three peers, req over all sequences
// of length <= 2 (duplicates, a never-created peer).
func (g *c05Gen_) cpStream(tier string) {
	type kf struct {
		cs  string
		fam int
	}
	peers := []string{"a", "b", "c"}
	for _, k := range []kf{{"p00", 0}, {"p00", 1}, {"p01", 0}, {"p10", 1}, {"sA0", 0}, {"sB0", 1}} {
		root := []string{"A", "B"}[k.fam]
		child := []string{"a", "b"}[k.fam]
		otherChild := []string{"b", "a"}[k.fam]
		self := k.cs[0] == 's'
		reqPool := append(append([]string{}, peers...), "zz")
		var reqs [][]string
		reqs = append(reqs, nil)
		for _, p := range reqPool {
			reqs = append(reqs, []string{p})
			for _, q := range reqPool {
				reqs = append(reqs, []string{p, q})
			}
		}
		for mask := 0; mask < 8; mask++ {
			var cur []string
			for i, p := range peers {
				if mask&(1<<i) != 0 {
					cur = append(cur, p)
				}
			}
			for _, req := range reqs {
				if tier != "thorough" && !g.r.chance(1, 3) {
					continue
				}
				var tx1 []string
				for _, p := range peers {
					if self {
						tx1 = append(tx1, "c:"+root+":"+toWire(p))
					} else {
						tx1 = append(tx1, "c:"+otherChild+":"+toWire(p))
					}
				}
				e := toWire("e")
				tx1 = append(tx1, "cl:"+root+":"+e+":0:"+c05Wires(cur))
				spec := g.withNaming([]string{k.cs})[0] + "~" + pick(g.r, []string{"AB", "BA", "-"})
				pools := [2][]string{{"e"}, peers}
				if k.fam == 1 {
					pools = [2][]string{peers, {"e"}}
				}
				if self {
					pools[k.fam] = append([]string{"e"}, peers...)
					pools[1-k.fam] = []string{"a"}
				}
				txs := []string{strings.Join(tx1, ";"), "cp:" + child + ":" + e + ":0:" + c05Wires(req)}
				if g.r.chance(1, 2) {
					txs = append(txs, "d:"+child+":"+e)
				}
				g.rline(spec, pools, txs)
			}
		}
	}
}

// restrictHistory: random histories over random schemas with a restricting fk
func (g *c05Gen_) restrictHistory() {
	r := g.r
	n := 1 + r.intn(3)
	var sc []string
	for j := 0; j < n; j++ {
		sc = append(sc, pick(r, c05gKinds))
	}
	sc = g.withNaming(sc)
	spec := strings.Join(sc, ",")
	if r.chance(1, 4) {
		spec += pick(r, []string{"@10", "@01", "@11"})
	}
	fk := r.intn(2)
	hasFk := !r.chance(1, 10)
	if hasFk {
		spec += "~" + []string{"AB", "BA"}[fk]
	} else {
		spec += "~-"
	}
	src, dst := fk, 1-fk
	pools := [2][]string{g.pool(), g.pool()}
	for f := 0; f < 2; f++ {
		if len(pools[f]) > 3 {
			pools[f] = pools[f][:3]
		}
	}
	fams := [2][2]string{{"A", "a"}, {"B", "b"}}
	var first []string
	for _, id := range pools[dst] {
		if r.chance(9, 10) {
			first = append(first, "c:"+fams[dst][r.intn(2)]+":"+toWire(id))
		}
	}
	for _, id := range pools[src] {
		switch w := r.intn(10); {
		case w < 5 && hasFk:
			first = append(first, "cr:"+fams[src][0]+":"+toWire(id)+":"+toWire(pick(r, pools[dst])))
			if r.chance(1, 2) {
				first = append(first, "c:"+fams[src][1]+":"+toWire(id)) // extension data over the existing parent
			}
		case w < 9:
			first = append(first, "c:"+fams[src][r.intn(2)]+":"+toWire(id))
		}
	}
	txs := []string{strings.Join(first, ";")}
	// collections registered on a root store, for cp / crl
	rootColls := func(fam int) []int {
		var res []int
		for i, cs := range sc {
			if cs[0] == 'r' {
				continue
			}
			if cs[0] == 's' {
				if cs[2] == '0' && int(cs[1]-'A') == fam {
					res = append(res, i)
				}
			} else if cs[1+fam] == '0' {
				res = append(res, i)
			}
		}
		return res
	}
	otherPool := func(i, fam int) []string {
		if sc[i][0] == 's' {
			return pools[fam]
		}
		return pools[1-fam]
	}
	ntx := 2 + r.intn(5)
	for t := 0; t < ntx; t++ {
		nops := 1 + r.intn(4)
		var ops []string
		for o := 0; o < nops; o++ {
			w := r.intn(100)
			f := r.intn(2)
			id := toWire(pick(r, pools[f]))
			switch {
			case w < 22:
				ops = append(ops, "dt:"+fams[f][r.intn(2)]+":"+id)
			case w < 26:
				ops = append(ops, "d:"+fams[f][r.intn(2)]+":"+id)
			case w < 32:
				ops = append(ops, "c:"+fams[f][r.intn(2)]+":"+id)
			case w < 40 && hasFk:
				tgt := toWire(pick(r, pools[dst]))
				sid := toWire(pick(r, pools[src]))
				if rc := rootColls(src); len(rc) > 0 && r.chance(1, 2) {
					i := pick(r, rc)
					ops = append(ops, "crl:"+fams[src][0]+":"+sid+":"+tgt+":"+strconv.Itoa(i)+":"+c05Wires(g.keys(otherPool(i, src))))
				} else {
					ops = append(ops, "cr:"+fams[src][0]+":"+sid+":"+tgt)
				}
			case w < 52:
				if rc := rootColls(f); len(rc) > 0 {
					i := pick(r, rc)
					ops = append(ops, "cp:"+fams[f][1]+":"+id+":"+strconv.Itoa(i)+":"+c05Wires(g.keys(otherPool(i, f))))
				} else {
					ops = append(ops, "dt:"+fams[f][r.intn(2)]+":"+id)
				}
			default:
				i := r.intn(len(sc))
				cs := sc[i]
				is := strconv.Itoa(i)
				sd := r.intn(2)
				own, other := pools[sd], pools[1-sd]
				S := "AB"[sd : sd+1]
				if cs[0] == 's' {
					S = "A"
					fam := int(cs[1] - 'A')
					own, other = pools[fam], pools[fam]
				}
				lid := toWire(pick(r, own))
				k := toWire(pick(r, other))
				if cs[0] == 'r' {
					switch v := r.intn(10); {
					case v < 5:
						ops = append(ops, "inc:"+is+":"+S+":"+lid+":"+k)
					case v < 7:
						ops = append(ops, "dec:"+is+":"+S+":"+lid+":"+k)
					default:
						ops = append(ops, "set:"+is+":"+S+":"+lid+":"+k+":"+strconv.Itoa(pick(r, []int{0, 1, 2, 3, 7})))
					}
				} else {
					switch v := r.intn(10); {
					case v < 4:
						ops = append(ops, "al:"+is+":"+S+":"+lid+":"+c05Wires(g.keys(other)))
					case v < 6:
						ops = append(ops, "sl:"+is+":"+S+":"+lid+":"+c05Wires(g.keys(other)))
					case v < 8:
						ops = append(ops, "a1:"+is+":"+S+":"+lid+":"+k)
					case v < 9:
						ops = append(ops, "rl:"+is+":"+S+":"+lid+":"+c05Wires(g.keys(other)))
					default:
						ops = append(ops, "r1:"+is+":"+S+":"+lid+":"+k)
					}
				}
			}
		}
		txs = append(txs, strings.Join(ops, ";"))
	}
	g.rline(spec, pools, txs)
}

func c05RestrictGen(g *c05Gen_, tier string) {
	g.refusedStream()
	g.cpStream(tier)
	n := 400
	if tier == "thorough" {
		n = 6000
	}
	for i := 0; i < n; i++ {
		g.restrictHistory()
	}
}
