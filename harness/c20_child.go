package main

// C20 — child stores.  A store built with StoreDefinition.Parent is a store of its own: the parent's GrantSymbols
// copies the parent's symbols (and whether each is public at that moment) into the child's own symbols /
// publicSymbols / mapSymbols once; later MakeSymbolPublic calls on either store change only that store.  "Public for
// the store" is therefore the validating store's own assignment, and a child's may differ from its parent's in both
// directions.  A store configuration is a chain of masks `<own>^<parent>^<grandparent>…` (c20Bits); an ancestor
// mask written `+<mask>` is applied BEFORE that ancestor grants its symbols to its child (the child inherits the
// public flags), a plain one after the grant (the child never hears of it).

import (
	"fmt"
	"sort"
	"strconv"
	"strings"

	"github.com/openziti/storage/boltz"
)

type c20Level struct {
	mask    uint64
	inherit bool // ancestors only: made public before GrantSymbols to the child
}

func c20ChainKey(chain []c20Level) string {
	parts := make([]string, len(chain))
	for i, l := range chain {
		parts[i] = strconv.FormatUint(l.mask, 10)
		if l.inherit && i > 0 {
			parts[i] = "+" + parts[i]
		}
	}
	return strings.Join(parts, "^")
}

func c20ParseChain(s string) ([]c20Level, bool) {
	var chain []c20Level
	for i, p := range strings.Split(s, "^") {
		l := c20Level{}
		if strings.HasPrefix(p, "+") {
			if i == 0 {
				return nil, false
			}
			l.inherit = true
			p = p[1:]
		}
		m, err := strconv.ParseUint(p, 10, 64)
		if err != nil {
			return nil, false
		}
		l.mask = m
		chain = append(chain, l)
	}
	return chain, len(chain) > 0 && len(chain) <= 4
}

func c20ApplyMask(s *boltz.BaseStore[*c20Ent], mask uint64) {
	for i, name := range c20Bits {
		if mask&(1<<uint(i)) != 0 {
			s.MakeSymbolPublic(name)
		}
	}
}

// c20StoreForChain builds the stores of a chain; the result's `a` is the validating store (chain[0]), `pubs` /
// `maps` the key sets of every level, own first.
func c20StoreForChain(chain []c20Level) *c20Stores {
	if len(chain) == 1 {
		return c20StoreFor(chain[0].mask)
	}
	key := c20ChainKey(chain)
	if v, ok := c20StoreCache.Load(key); ok {
		return v.(*c20Stores)
	}
	// the root ancestor is store A as always, declared with nothing made public yet
	top, b := c20NewPair()
	levels := make([]*boltz.BaseStore[*c20Ent], len(chain))
	levels[len(chain)-1] = top
	for i := len(chain) - 1; i >= 1; i-- {
		if chain[i].inherit {
			c20ApplyMask(levels[i], chain[i].mask)
		}
		child := boltz.NewBaseStore(boltz.StoreDefinition[*c20Ent]{EntityStrategy: c20Strategy{}, BasePath: []string{"c20"},
			Parent: levels[i], ParentMapper: func(e boltz.Entity) boltz.Entity { return e }})
		child.InitImpl(child)
		levels[i].GrantSymbols(child)
		levels[i-1] = child
	}
	for i := len(chain) - 1; i >= 1; i-- {
		if !chain[i].inherit {
			c20ApplyMask(levels[i], chain[i].mask)
		}
	}
	c20ApplyMask(levels[0], chain[0].mask)
	st := &c20Stores{a: levels[0], b: b}
	for _, l := range levels {
		pub := l.GetPublicSymbols()
		sort.Strings(pub)
		st.pubs = append(st.pubs, pub)
	}
	st.pub = st.pubs[0]
	c20StoreCache.Store(key, st)
	return st
}

// the `<maps>` and `<pub>` fields of a case line
func (st *c20Stores) cfgFields() (string, string) {
	if st.levels != nil { // keyed stores: names and keys read off every store of the chain (c20_keyed.go)
		var ms, ps []string
		for i, l := range st.levels {
			ms = append(ms, c20MapsField(l))
			ps = append(ps, c20Names(st.pubs[i]))
		}
		return strings.Join(ms, "^"), strings.Join(ps, "^")
	}
	if len(st.pubs) <= 1 {
		return c20Names(c20Maps), c20Names(st.pub)
	}
	var ms, ps []string
	for _, p := range st.pubs {
		ms = append(ms, c20Names(c20Maps)) // map symbols are inherited as they are (inheritMapSymbol)
		ps = append(ps, c20Names(p))
	}
	return strings.Join(ms, "^"), strings.Join(ps, "^")
}

const c20AllBits = (uint64(1) << 13) - 1 // every assignable symbol except the explicit element marking

// child-store variants of a case: the same query validated against a child store with the same own assignment
// `mask`, under parents that expose everything / nothing / something else, inherited or not
func (e *c20Emitter) childVariants(tag string, mask uint64, query string, toks []string) {
	e.nChild++
	k := e.nChild
	rnd := e.r.next() & c20AllBits
	var chains [][]c20Level
	switch k % 6 {
	case 0: // the parent exposes everything after the grant, the child only `mask`
		chains = append(chains, []c20Level{{mask: mask}, {mask: c20AllBits}})
	case 1: // the parent exposes nothing but id / boss
		chains = append(chains, []c20Level{{mask: mask}, {mask: 0}})
	case 2: // the parent exposes the complement of the child's set
		chains = append(chains, []c20Level{{mask: mask}, {mask: c20AllBits &^ mask}})
	case 3: // inherited: the child's set is the parent's at grant time plus its own
		chains = append(chains, []c20Level{{mask: mask & rnd}, {mask: mask &^ rnd, inherit: true}})
	case 4: // grandparent exposes everything, parent and child agree
		chains = append(chains, []c20Level{{mask: mask}, {mask: mask}, {mask: c20AllBits}})
	case 5: // random parent, random grandparent
		chains = append(chains, []c20Level{{mask: mask}, {mask: rnd}, {mask: e.r.next() & c20AllBits, inherit: e.r.chance(1, 2)}})
	}
	for _, ch := range chains {
		e.lineChain(tag, ch, query, toks)
	}
}

func (e *c20Emitter) lineChain(tag string, chain []c20Level, query string, toks []string) {
	st := c20StoreForChain(chain)
	q := "-"
	if tag != "s" {
		q = c20Name(query)
	}
	ms, ps := st.cfgFields()
	l := fmt.Sprintf("%s %s %s %s %s %s", tag, c20ChainKey(chain), ms, ps, q, strings.Join(toks, " "))
	if e.seen[l] {
		return
	}
	e.seen[l] = true
	e.out.WriteString(l)
	e.out.WriteByte('\n')
	e.n++
}
