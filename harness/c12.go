package main

import (
	"bufio"
	"fmt"
	"sort"
	"strings"

	"github.com/openziti/storage/ast"
	"github.com/openziti/storage/zitiql"
)

// C12 cases
//
//	k <n> <skeleton>
//	    compact token skeleton: a..y boolean symbols, z a string-typed symbol, T F the BOOL
//	    constants, & and, | or, ! not, ( ).  The executor writes it in canonical spelling
//	    (`pa and (pb or not pc)`), runs ast.Parse over a table of boolean symbols, and prints
//	    `ok <typed tree> <truth table over all 2^n assignments>` | parse-error | type-error.
//	    The typed tree is observed with an ast.Visitor (Query.String() does not show grouping).
//	r <base skeleton> <hex spelled text> <truth vectors>
//	    a re-spelling (keyword case, whitespace incl. tabs/newlines, redundant parentheses, atom
//	    spelling variants) of the base skeleton, whose atoms are operations over a small row
//	    table; atoms appear in the spelled text as placeholders x<letter>_<variant>, which the
//	    executor replaces by the real operation text.  Prints `ok - <bits over the rows>`.
//	    The truth vectors (per atom, over the rows) are computed by the generator from the row
//	    values, not by the code under test.
//	D <case>
//	    the k or r case <case>, executed with ast.EnableQueryDebug switched on: same output.
//	c <letter>
//	    the typed node class of operation atom <letter> and what its GetType() reports (c12_classes.go).
//	x <hex text> <truth vectors>
//	    a damaged spelling (whitespace removed where the grammar demands it, words split or
//	    glued, parentheses dropped or doubled, reserved or keyword-like words as atoms, `not` +
//	    blank + a word beginning with in/contains/…): accept/reject and result are compared
//	    with the lexer + whitespace model only; the spec has no opinion (`any`).
func init() {
	register("c12", &propHarness{gen: c12Gen, exec: c12Exec})
}

// ---------------------------------------------------------------- skeletons as written

// c12Unit: exactly one of atom / grp / neg is set; neg (a trailing `not <rest of level>`) is
// only allowed as the last unit of a level.
type c12Unit struct {
	atom string // "a".."z", "T", "F"; for r-cases with a variant: "a1"
	grp  *c12Level
	neg  *c12Level
}

type c12Level struct {
	units []*c12Unit
	ops   []byte // '&' or '|', len(units)-1
}

func (l *c12Level) compact(b *strings.Builder) {
	for i, u := range l.units {
		if i > 0 {
			b.WriteByte(l.ops[i-1])
		}
		switch {
		case u.grp != nil:
			b.WriteByte('(')
			u.grp.compact(b)
			b.WriteByte(')')
		case u.neg != nil:
			b.WriteByte('!')
			u.neg.compact(b)
		default:
			b.WriteByte(u.atom[0])
		}
	}
}

func (l *c12Level) String() string {
	var b strings.Builder
	l.compact(&b)
	return b.String()
}

func (l *c12Level) clone() *c12Level {
	n := &c12Level{ops: append([]byte{}, l.ops...)}
	for _, u := range l.units {
		c := &c12Unit{atom: u.atom}
		if u.grp != nil {
			c.grp = u.grp.clone()
		}
		if u.neg != nil {
			c.neg = u.neg.clone()
		}
		n.units = append(n.units, c)
	}
	return n
}

// c12Enumerate calls f for every level with exactly `atoms` atoms, at most `parens` pairs of
// parentheses and at most `nots` nots.  Atoms are named by the caller afterwards.
func c12Enumerate(atoms, parens, nots int, f func(*c12Level)) {
	var lev func(atoms, parens, nots int, k func(*c12Level, int, int))
	var unit func(atoms, parens, nots int, k func(*c12Unit, int, int))
	// unit with exactly `atoms` atoms (not the trailing-not kind)
	unit = func(atoms, parens, nots int, k func(*c12Unit, int, int)) {
		if atoms == 1 {
			k(&c12Unit{atom: "?"}, parens, nots)
		}
		if parens > 0 {
			lev(atoms, parens-1, nots, func(l *c12Level, p, n int) { k(&c12Unit{grp: l}, p, n) })
		}
	}
	// level with exactly `atoms` atoms: unit | unit op level | not level
	lev = func(atoms, parens, nots int, k func(*c12Level, int, int)) {
		// single unit
		unit(atoms, parens, nots, func(u *c12Unit, p, n int) { k(&c12Level{units: []*c12Unit{u}}, p, n) })
		// not <level>
		if nots > 0 {
			lev(atoms, parens, nots-1, func(l *c12Level, p, n int) {
				k(&c12Level{units: []*c12Unit{{neg: l}}}, p, n)
			})
		}
		// unit op level
		for first := 1; first < atoms; first++ {
			unit(first, parens, nots, func(u *c12Unit, p, n int) {
				lev(atoms-first, p, n, func(rest *c12Level, p2, n2 int) {
					for _, op := range []byte{'&', '|'} {
						nl := &c12Level{units: append([]*c12Unit{u}, rest.units...), ops: append([]byte{op}, rest.ops...)}
						k(nl, p2, n2)
					}
				})
			})
		}
	}
	lev(atoms, parens, nots, func(l *c12Level, _, _ int) { f(l) })
}

// name the atoms a, b, c, ... in order of appearance (on a clone)
func c12NameAtoms(l *c12Level) *c12Level {
	c := l.clone()
	i := 0
	var walk func(l *c12Level)
	walk = func(l *c12Level) {
		for _, u := range l.units {
			switch {
			case u.grp != nil:
				walk(u.grp)
			case u.neg != nil:
				walk(u.neg)
			case u.atom == "T" || u.atom == "F":
			default:
				u.atom = string(rune('a' + i))
				i++
			}
		}
	}
	walk(c)
	return c
}

// ---------------------------------------------------------------- k cases: executor

func c12SymName(ch byte) string {
	switch {
	case ch == 'T':
		return "true"
	case ch == 'F':
		return "false"
	case ch == 'z':
		return "strz"
	}
	return "p" + string(ch)
}

// canonical spelling of a compact skeleton: one blank between tokens, none inside parentheses
func c12Canonical(sk string) string {
	var b strings.Builder
	for i := 0; i < len(sk); i++ {
		ch := sk[i]
		var tok string
		switch ch {
		case '&':
			tok = "and"
		case '|':
			tok = "or"
		case '!':
			tok = "not"
		case '(', ')':
			tok = string(ch)
		default:
			tok = c12SymName(ch)
		}
		if i > 0 && ch != ')' && sk[i-1] != '(' {
			b.WriteByte(' ')
		}
		b.WriteString(tok)
	}
	return b.String()
}

type c12TreeVisitor struct {
	ast.DefaultVisitor
	stack []string
	bad   string
}

func (v *c12TreeVisitor) push(s string) { v.stack = append(v.stack, s) }
func (v *c12TreeVisitor) pop() string {
	if len(v.stack) == 0 {
		v.bad = "underflow"
		return "?"
	}
	s := v.stack[len(v.stack)-1]
	v.stack = v.stack[:len(v.stack)-1]
	return s
}
func (v *c12TreeVisitor) VisitBoolSymbolNode(node *ast.BoolSymbolNode) {
	name := node.Symbol()
	if len(name) == 2 && name[0] == 'p' {
		v.push(name[1:])
	} else {
		v.push("<" + name + ">")
	}
}
func (v *c12TreeVisitor) VisitBoolConstNode(node *ast.BoolConstNode) {
	if node.EvalBool(nil) {
		v.push("T")
	} else {
		v.push("F")
	}
}
func (v *c12TreeVisitor) VisitAndExprNodeEnd(*ast.AndExprNode) {
	r, l := v.pop(), v.pop()
	v.push("&(" + l + "," + r + ")")
}
func (v *c12TreeVisitor) VisitOrExprNodeEnd(*ast.OrExprNode) {
	r, l := v.pop(), v.pop()
	v.push("|(" + l + "," + r + ")")
}
func (v *c12TreeVisitor) VisitNotExprNodeEnd(*ast.NotExprNode) {
	e := v.pop()
	v.push("!(" + e + ")")
}

func c12ErrClass(err error) string {
	if _, ok := err.(zitiql.ParseError); ok {
		return "parse-error"
	}
	msg := err.Error()
	if strings.Contains(msg, "not bool") || strings.Contains(msg, "must be a boolean") || strings.Contains(msg, "must wrap bool") {
		return "type-error"
	}
	return "other-error " + fmt.Sprintf("%q", msg)
}

func c12ExecSkeleton(n int, sk string) string {
	syms := newMemSymbols()
	for i := 0; i < 25; i++ {
		syms.types["p"+string(rune('a'+i))] = ast.NodeTypeBool
	}
	syms.types["strz"] = ast.NodeTypeString
	syms.scalars["strz"] = "v"
	query, err := ast.Parse(syms, c12Canonical(sk))
	if err != nil {
		return c12ErrClass(err)
	}
	v := &c12TreeVisitor{}
	query.GetPredicate().Accept(v)
	tree := "?"
	if len(v.stack) == 1 && v.bad == "" {
		tree = v.stack[0]
	} else {
		tree = fmt.Sprintf("<visitor stack %d %s>", len(v.stack), v.bad)
	}
	var b strings.Builder
	for m := 0; m < 1<<uint(n); m++ {
		for i := 0; i < n; i++ {
			syms.scalars["p"+string(rune('a'+i))] = (m>>uint(i))&1 == 1
		}
		if query.EvalBool(syms) {
			b.WriteByte('1')
		} else {
			b.WriteByte('0')
		}
	}
	return "ok " + tree + " " + b.String()
}

// ---------------------------------------------------------------- r cases: rows and atoms

func c12AtomLetters() []byte {
	var ls []byte
	for k := range c12Atoms {
		ls = append(ls, k)
	}
	sort.Slice(ls, func(i, j int) bool { return ls[i] < ls[j] })
	return ls
}

// identifiers that look like keywords / operators but are ordinary (boolean, always false) symbols
var c12ExtraWords = []string{"index", "inside", "containsx", "icontainsy", "betweenness", "nullable", "sorted",
	"oral", "android", "nota", "truex", "falsey", "bye", "skipper", "ascii", "a_b", "and_", "Or_not"}

// reserved words: never an atom
var c12Reserved = []string{"null", "sort", "by", "skip", "limit", "none", "where", "from", "asc", "desc", "allof",
	"anyof", "count", "isempty", "in", "contains", "icontains", "between", "NULL", "Sort", "IN", "Between"}

func c12ExecRespelled(spelled string) string {
	text, ok := c12Substitute(spelled)
	if !ok {
		return "bad-case"
	}
	query, err := ast.Parse(c12Any(c12Rows[0]), text)
	if err != nil {
		return c12ErrClass(err)
	}
	var b strings.Builder
	for _, r := range c12Rows {
		if query.EvalBool(c12Any(r)) {
			b.WriteByte('1')
		} else {
			b.WriteByte('0')
		}
	}
	return "ok - " + b.String()
}

func c12Exec(line string) string {
	f := fields(line)
	switch f[0] {
	case "D":
		if len(f) < 2 || f[1] == "D" {
			return "bad-case"
		}
		return c12ExecDebug(strings.TrimPrefix(line, "D "))
	case "S": // show: the text of a spelled r / x case with the placeholders replaced (for reports)
		if len(f) != 2 {
			return "bad-case"
		}
		text, _ := c12Substitute(fromWire(f[1]))
		return "text " + toWire(text)
	case "c": // round 8: the typed class of an operation atom (c12_classes.go)
		if len(f) != 2 || len(f[1]) != 1 {
			return "bad-case"
		}
		return c12ExecClass(f[1][0])
	case "k":
		if len(f) != 3 {
			return "bad-case"
		}
		n := 0
		fmt.Sscanf(f[1], "%d", &n)
		return c12ExecSkeleton(n, f[2])
	case "r":
		if len(f) != 4 {
			return "bad-case"
		}
		return c12ExecRespelled(fromWire(f[2]))
	case "x":
		if len(f) != 3 {
			return "bad-case"
		}
		return c12ExecRespelled(fromWire(f[1]))
	}
	return "bad-case"
}

// ---------------------------------------------------------------- generator

func c12CountAtoms(sk string) int {
	n := 0
	for i := 0; i < len(sk); i++ {
		if sk[i] >= 'a' && sk[i] <= 'y' {
			if int(sk[i]-'a')+1 > n {
				n = int(sk[i]-'a') + 1
			}
		}
	}
	return n
}

func c12EmitK(out *bufio.Writer, sk string) {
	fmt.Fprintf(out, "k %d %s\n", c12CountAtoms(sk), sk)
}

var c12WsChars = []string{" ", " ", " ", "\t", "\n", "\r", "  ", " \t ", "\r\n"}

func c12Gap(r *rng, required bool) string {
	if required {
		return pick(r, c12WsChars)
	}
	if r.chance(1, 2) {
		return ""
	}
	return pick(r, c12WsChars)
}

func c12Case(r *rng, w string) string {
	var b strings.Builder
	for i := 0; i < len(w); i++ {
		c := w[i]
		switch r.intn(3) {
		case 0:
			b.WriteByte(c)
		case 1:
			b.WriteString(strings.ToUpper(string(c)))
		default:
			if i%2 == 0 {
				b.WriteString(strings.ToUpper(string(c)))
			} else {
				b.WriteByte(c)
			}
		}
	}
	return b.String()
}

// spell a level: random keyword case, random whitespace (required where the grammar says WS+),
// atoms as placeholders with a random variant.
func c12Spell(r *rng, l *c12Level, b *strings.Builder) {
	for i, u := range l.units {
		if i > 0 {
			b.WriteString(c12Gap(r, true))
			if l.ops[i-1] == '&' {
				b.WriteString(c12Case(r, "and"))
			} else {
				b.WriteString(c12Case(r, "or"))
			}
			b.WriteString(c12Gap(r, true))
		}
		switch {
		case u.grp != nil:
			b.WriteByte('(')
			b.WriteString(c12Gap(r, false))
			c12Spell(r, u.grp, b)
			b.WriteString(c12Gap(r, false))
			b.WriteByte(')')
		case u.neg != nil:
			b.WriteString(c12Case(r, "not"))
			b.WriteString(c12Gap(r, true))
			c12Spell(r, u.neg, b)
		case u.atom == "T":
			b.WriteString(c12Case(r, "true"))
		case u.atom == "F":
			b.WriteString(c12Case(r, "false"))
		default:
			fmt.Fprintf(b, "x%c_%c", u.atom[0], 'a'+r.intn(c12AtomVariants))
		}
	}
}

// andGroups returns the [start,end] unit index ranges of the maximal and-chains of a level
func (l *c12Level) andGroups() [][2]int {
	var gs [][2]int
	start := 0
	for i, op := range l.ops {
		if op == '|' {
			gs = append(gs, [2]int{start, i})
			start = i + 1
		}
	}
	return append(gs, [2]int{start, len(l.units) - 1})
}

// c12AddParens inserts one pair of parentheses that is redundant under the intended reading:
// around the whole level, a single unit, a run of units inside one and-group, or a run of whole
// and-groups (a trailing `not` belongs to the last unit and takes everything after it).
func c12AddParens(r *rng, l *c12Level) *c12Level {
	// descend at random
	if r.chance(1, 3) {
		var subs []*c12Level
		for _, u := range l.units {
			if u.grp != nil {
				subs = append(subs, u.grp)
			}
			if u.neg != nil {
				subs = append(subs, u.neg)
			}
		}
		if len(subs) > 0 {
			k := r.intn(len(subs))
			n := 0
			for _, u := range l.units {
				if u.grp != nil {
					if n == k {
						u.grp = c12AddParens(r, u.grp)
						return l
					}
					n++
				}
				if u.neg != nil {
					if n == k {
						u.neg = c12AddParens(r, u.neg)
						return l
					}
					n++
				}
			}
		}
	}
	wrap := func(i, j int) *c12Level {
		inner := &c12Level{units: append([]*c12Unit{}, l.units[i:j+1]...), ops: append([]byte{}, l.ops[i:j]...)}
		nu := append([]*c12Unit{}, l.units[:i]...)
		nu = append(nu, &c12Unit{grp: inner})
		nu = append(nu, l.units[j+1:]...)
		no := append([]byte{}, l.ops[:i]...)
		no = append(no, l.ops[j:]...)
		return &c12Level{units: nu, ops: no}
	}
	last := len(l.units) - 1
	switch r.intn(4) {
	case 0: // whole level
		return wrap(0, last)
	case 1: // one unit (a trailing not-unit takes the rest of the level: that is case 0 of the tail)
		i := r.intn(len(l.units))
		return wrap(i, i)
	case 2: // run inside one and-group
		gs := l.andGroups()
		g := gs[r.intn(len(gs))]
		if g[1] > g[0] {
			i := g[0] + r.intn(g[1]-g[0]+1)
			j := i + r.intn(g[1]-i+1)
			return wrap(i, j)
		}
		return wrap(g[0], g[1])
	default: // run of whole and-groups
		gs := l.andGroups()
		a := r.intn(len(gs))
		b := a + r.intn(len(gs)-a)
		return wrap(gs[a][0], gs[b][1])
	}
}

func c12RandomLevel(r *rng, atoms int, depth int, letters []byte) *c12Level {
	l := &c12Level{}
	for atoms > 0 {
		last := false
		u := &c12Unit{}
		switch {
		case depth > 0 && atoms >= 2 && r.chance(1, 4):
			k := 1 + r.intn(atoms)
			if k == atoms && len(l.units) == 0 && r.chance(1, 2) {
				k = atoms - 1
			}
			u.grp = c12RandomLevel(r, k, depth-1, letters)
			atoms -= k
		case r.chance(1, 7):
			u.neg = c12RandomLevel(r, atoms, depth, letters)
			atoms = 0
			last = true
		case r.chance(1, 12):
			u.atom = pick(r, []string{"T", "F"})
			atoms--
		default:
			u.atom = string(pick(r, letters))
			atoms--
		}
		if len(l.units) > 0 {
			l.ops = append(l.ops, pick(r, []byte{'&', '|'}))
		}
		l.units = append(l.units, u)
		if last {
			break
		}
	}
	return l
}

func c12Vectors(l *c12Level) string {
	seen := map[byte]bool{}
	var walk func(l *c12Level)
	walk = func(l *c12Level) {
		for _, u := range l.units {
			switch {
			case u.grp != nil:
				walk(u.grp)
			case u.neg != nil:
				walk(u.neg)
			case u.atom != "T" && u.atom != "F":
				seen[u.atom[0]] = true
			}
		}
	}
	walk(l)
	var ls []byte
	for k := range seen {
		ls = append(ls, k)
	}
	sort.Slice(ls, func(i, j int) bool { return ls[i] < ls[j] })
	var parts []string
	for _, k := range ls {
		var b strings.Builder
		for _, row := range c12Rows {
			if c12Atoms[k].truth(row) {
				b.WriteByte('1')
			} else {
				b.WriteByte('0')
			}
		}
		parts = append(parts, string(k)+"="+b.String())
	}
	if len(parts) == 0 {
		return "-=" + strings.Repeat("0", len(c12Rows))
	}
	return strings.Join(parts, ",")
}

func c12EmitR(out *bufio.Writer, r *rng, base *c12Level, parens int) {
	sp := base.clone()
	for i := 0; i < parens; i++ {
		sp = c12AddParens(r, sp)
	}
	var b strings.Builder
	b.WriteString(c12Gap(r, false))
	c12Spell(r, sp, &b)
	b.WriteString(c12Gap(r, false))
	fmt.Fprintf(out, "r %s %s %s\n", base.String(), toWire(b.String()), c12Vectors(base))
}

// c12Damage applies one random edit inside the lexical fragment (letters, underscore, blanks,
// parentheses) to a spelled text.
func c12Damage(r *rng, text string) string {
	isWs := func(c byte) bool { return c == ' ' || c == '\t' || c == '\n' || c == '\r' }
	switch r.intn(8) {
	case 0: // remove one whitespace run
		var runs [][2]int
		for i := 0; i < len(text); {
			if isWs(text[i]) {
				j := i
				for j < len(text) && isWs(text[j]) {
					j++
				}
				runs = append(runs, [2]int{i, j})
				i = j
			} else {
				i++
			}
		}
		if len(runs) > 0 {
			k := pick(r, runs)
			return text[:k[0]] + text[k[1]:]
		}
	case 1: // insert a whitespace character anywhere (may split a word)
		i := r.intn(len(text) + 1)
		return text[:i] + pick(r, []string{" ", "\t", "\n"}) + text[i:]
	case 2: // replace a placeholder by a keyword-like or reserved word
		if i := strings.Index(text, "x"); i >= 0 && i+4 <= len(text) && text[i+2] == '_' {
			w := pick(r, c12ExtraWords)
			if r.chance(1, 3) {
				w = pick(r, c12Reserved)
			}
			return text[:i] + w + text[i+4:]
		}
	case 3: // drop or double a parenthesis
		var ps []int
		for i := 0; i < len(text); i++ {
			if text[i] == '(' || text[i] == ')' {
				ps = append(ps, i)
			}
		}
		if len(ps) > 0 {
			i := pick(r, ps)
			if r.chance(1, 2) {
				return text[:i] + text[i+1:]
			}
			return text[:i] + text[i:i+1] + text[i:]
		}
	case 4: // glue a letter or underscore onto a word
		i := r.intn(len(text) + 1)
		return text[:i] + pick(r, []string{"_", "y", "N", "s"}) + text[i:]
	case 5: // `not` + blank(s) + a word the lexer may fuse with it
		w := pick(r, []string{"index", "inside", "containsx", "icontainsy", "betweenness", "IN", "Index", "nota", "truex"})
		gap := pick(r, []string{" ", "\t", "  ", "\n", " \t"})
		pre := pick(r, []string{"not", "NOT", "nOt"}) + gap + w
		if r.chance(1, 2) {
			return pre + " " + pick(r, []string{"and", "OR"}) + " " + text
		}
		return text + " " + pick(r, []string{"and", "or"}) + " " + pre
	case 6: // parenthesis directly against a keyword
		for _, kw := range []string{" and ", " or ", " AND ", " OR "} {
			if i := strings.Index(text, kw); i >= 0 {
				if r.chance(1, 2) {
					return text[:i] + kw[:len(kw)-1] + text[i+len(kw):]
				}
				return text[:i] + kw[1:] + text[i+len(kw):]
			}
		}
	}
	// default: a reserved word as an extra operand
	return text + " and " + pick(r, c12Reserved)
}

func c12EmitX(out *bufio.Writer, r *rng, base *c12Level) {
	var b strings.Builder
	b.WriteString(c12Gap(r, false))
	c12Spell(r, base, &b)
	b.WriteString(c12Gap(r, false))
	text := b.String()
	n := 1 + r.intn(2)
	for i := 0; i < n; i++ {
		text = c12Damage(r, text)
	}
	fmt.Fprintf(out, "x %s %s\n", toWire(text), c12Vectors(base))
}

func c12Gen(tier string, seed uint64, out *bufio.Writer) {
	r := newRng(seed)
	thorough := tier == "thorough"
	// 1. every token sequence up to a length over {a ( ) & | !}: accept/reject and reading of
	//    whatever is accepted (atoms renamed positionally)
	maxSeq := 5
	if thorough {
		maxSeq = 7
	}
	alphabet := []byte{'?', '(', ')', '&', '|', '!'}
	var seqs func(prefix []byte, n int)
	seqs = func(prefix []byte, n int) {
		if len(prefix) > 0 {
			sk := make([]byte, len(prefix))
			k := 0
			for i, c := range prefix {
				if c == '?' {
					sk[i] = byte('a' + k)
					k++
				} else {
					sk[i] = c
				}
			}
			c12EmitK(out, string(sk))
		}
		if n == 0 {
			return
		}
		for _, a := range alphabet {
			seqs(append(prefix, a), n-1)
		}
	}
	seqs(nil, maxSeq)
	// 2. every well-formed skeleton with up to N atoms (bounded parentheses and nots; the real
	//    parser needs 1-4 ms per skeleton of this size, which sets the bounds)
	type bound struct{ atoms, parens, nots int }
	bounds := []bound{{1, 2, 2}, {2, 2, 2}, {3, 2, 2}, {4, 2, 1}}
	if thorough {
		bounds = []bound{{1, 3, 3}, {2, 3, 3}, {3, 3, 3}, {4, 2, 2}, {5, 2, 1}}
	}
	// quick: of the 4-atom skeletons, those with two pairs of parentheses AND a not (2 400 of the
	// 3 320) are sampled 1 in 3 (own random stream); everything with fewer parentheses or without
	// not is complete, and the thorough tier has all of (4,2,2)
	rs := newRng(seed ^ 0x5a4d91e5c12b0001)
	for _, bd := range bounds {
		c12Enumerate(bd.atoms, bd.parens, bd.nots, func(l *c12Level) {
			sk := c12NameAtoms(l).String()
			if !thorough && bd.atoms == 4 && strings.Count(sk, "(") == 2 && strings.Count(sk, "!") == 1 && !rs.chance(1, 3) {
				return
			}
			c12EmitK(out, sk)
		})
	}
	// 3. constants, a non-boolean symbol, repeated atoms
	for _, sk := range []string{"T", "F", "T&a", "a|F", "!T", "z", "a&z", "z|a", "!z", "(z)", "a&a|a", "a&b|a", "T&F|T", "F&T|T", "a&(z|b)"} {
		c12EmitK(out, sk)
	}
	// 4. random larger skeletons (up to 8 atoms, deeper nesting)
	nBig := 200
	if thorough {
		nBig = 5000
	}
	bigLetters := []byte("abcdefgh")
	for i := 0; i < nBig; i++ {
		l := c12RandomLevel(r, 5+r.intn(4), 3, bigLetters)
		c12EmitK(out, c12NameAtoms(l).String())
	}
	// 4b. related operands (c12_related.go): the same atoms grouped in two ways, identical / mirrored
	//     / repeated operands, under not, with constants; own random stream, so that the streams
	//     below do not depend on it
	out.Flush()
	c12GenRelated(tier, seed, out)
	// 4c. negated atoms (c12_negatoms.go): every operation atom under `not` in every position, over
	//     rows with NULL fields and empty sets; own random stream
	c12GenNegAtoms(tier, seed, out)
	// 4c'. the typed class of every operation atom (c12_classes.go)
	c12GenClasses(out)
	// 4e. large skeletons (c12_large.go): wide chains, wide nested trees, deep parentheses / nots,
	//     right- and left-nested trees of hundreds of atoms
	c12GenLarge(tier, seed, out)
	// 4d. a sample of k / r cases once more under ast.EnableQueryDebug = true (c12_config.go)
	c12GenConfig(tier, seed, out)
	// 5. re-spellings of mixed queries
	nR := 1800
	if thorough {
		nR = 46000
	}
	letters := c12AtomLetters()
	for i := 0; i < nR; i++ {
		base := c12RandomLevel(r, 1+r.intn(5), 2, letters)
		c12EmitR(out, r, base, r.intn(4))
	}
	// 6. damaged spellings (lexer + whitespace model against the real lexer/parser)
	nX := 1500
	if thorough {
		nX = 40000
	}
	for i := 0; i < nX; i++ {
		base := c12AddParens(r, c12RandomLevel(r, 1+r.intn(4), 2, letters))
		c12EmitX(out, r, base)
	}
}
