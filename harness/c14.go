package main

// C14 — every set cursor enumerates its set exactly, in order, and seeks correctly.
//
// case line:   <desc> <ops>
//
//	desc  prefix notation, tokens separated by ';' (see lean/StorageModel/Driver/C14.lean):
//	        fwd;via;SET   rev;via;SET   tfwd;via;TAG;SET   trev;via;TAG;SET   setsym;SET   setsymnone
//	        empty;via   tree;f|r;0|1;LIST   filt;DESC;SET   union;f|r;DESC;DESC
//	        scan;DESC;SKIP;KEEP   valid;DESC;PRESENT
//	      `via` names the library call that hands out the cursor (the model ignores it).
//	ops   n | s<hex> (Seek) | t<hex> (SeekToString), separated by ',', '_' = none
//
// output: the observation after opening the cursor and after every operation:
//
//	i (IsValid()==false)   v<hex> / vnil (valid, Current())   u (cursor type has no such method)   panic
//
// The data of a description is written into a real bbolt database through the library's
// exported API (raw bucket writes only where the API cannot produce the element, e.g. a
// non-string type byte); the script is then run against the real cursor under recover().

import (
	"bufio"
	"fmt"
	"os"
	"path/filepath"
	"strings"
	"sync"

	"github.com/openziti/storage/ast"
	"github.com/openziti/storage/boltz"
	"go.etcd.io/bbolt"
)

func init() {
	register("c14", &propHarness{gen: c14Gen, exec: c14Exec})
}

// ---------------------------------------------------------------------------- wire helpers

func c14ParseSet(s string) []string {
	if s == "_" {
		return nil
	}
	var res []string
	for _, e := range strings.Split(s, ",") {
		res = append(res, fromWire(e))
	}
	return res
}

func c14ShowSet(xs []string) string {
	if len(xs) == 0 {
		return "_"
	}
	ws := make([]string, len(xs))
	for i, x := range xs {
		ws[i] = toWire(x)
	}
	return strings.Join(ws, ",")
}

type c14Row struct {
	id    string
	roles []string
}

func c14ParseTable(s string) []c14Row {
	if s == "_" {
		return nil
	}
	var res []c14Row
	for _, r := range strings.Split(s, "+") {
		p := strings.SplitN(r, "=", 2)
		row := c14Row{id: fromWire(p[0])}
		if p[1] != "_" {
			for _, x := range strings.Split(p[1], ".") {
				row.roles = append(row.roles, fromWire(x))
			}
		}
		res = append(res, row)
	}
	return res
}

func c14ShowTable(t []c14Row) string {
	if len(t) == 0 {
		return "_"
	}
	rows := make([]string, len(t))
	for i, r := range t {
		rs := "_"
		if len(r.roles) > 0 {
			ws := make([]string, len(r.roles))
			for j, x := range r.roles {
				ws[j] = toWire(x)
			}
			rs = strings.Join(ws, ".")
		}
		rows[i] = toWire(r.id) + "=" + rs
	}
	return strings.Join(rows, "+")
}

// the world of a stacked-cursor case (composite set symbols)
type c14WThing struct {
	id     string
	tags   []string
	others []string
	boss   *string
	rc     []string // ref-counted links (re-use cases); hasRc == false: never linked, no bucket
	hasRc  bool
	rcSet  bool // the row carries the fourth field
}

type c14WOther struct {
	id   string
	tags []string
	name *string
}

type c14World struct {
	things []c14WThing
	others []c14WOther
}

func c14ParseDotList(s string) []string {
	if s == "_" {
		return nil
	}
	var res []string
	for _, x := range strings.Split(s, ".") {
		res = append(res, fromWire(x))
	}
	return res
}

func c14ShowDotList(xs []string) string {
	if len(xs) == 0 {
		return "_"
	}
	ws := make([]string, len(xs))
	for i, x := range xs {
		ws[i] = toWire(x)
	}
	return strings.Join(ws, ".")
}

func c14ParseOpt(s string) *string {
	if s == "~" {
		return nil
	}
	v := fromWire(s)
	return &v
}

func c14ShowOpt(p *string) string {
	if p == nil {
		return "~"
	}
	return toWire(*p)
}

func c14ParseWorld(th, ot string) *c14World {
	w := &c14World{}
	if th != "_" {
		for _, r := range strings.Split(th, "+") {
			p := strings.SplitN(r, "=", 2)
			f := strings.Split(p[1], "/")
			t := c14WThing{id: fromWire(p[0]), tags: c14ParseDotList(f[0]), others: c14ParseDotList(f[1]), boss: c14ParseOpt(f[2])}
			if len(f) > 3 {
				t.rcSet = true
				if f[3] != "~" {
					t.hasRc, t.rc = true, c14ParseDotList(f[3])
				}
			}
			w.things = append(w.things, t)
		}
	}
	if ot != "_" {
		for _, r := range strings.Split(ot, "+") {
			p := strings.SplitN(r, "=", 2)
			f := strings.Split(p[1], "/")
			w.others = append(w.others, c14WOther{id: fromWire(p[0]), tags: c14ParseDotList(f[0]), name: c14ParseOpt(f[1])})
		}
	}
	return w
}

func (w *c14World) String() string {
	th, ot := "_", "_"
	if len(w.things) > 0 {
		rows := make([]string, len(w.things))
		for i, t := range w.things {
			rows[i] = toWire(t.id) + "=" + c14ShowDotList(t.tags) + "/" + c14ShowDotList(t.others) + "/" + c14ShowOpt(t.boss)
			if t.rcSet {
				if t.hasRc {
					rows[i] += "/" + c14ShowDotList(t.rc)
				} else {
					rows[i] += "/~"
				}
			}
		}
		th = strings.Join(rows, "+")
	}
	if len(w.others) > 0 {
		rows := make([]string, len(w.others))
		for i, o := range w.others {
			rows[i] = toWire(o.id) + "=" + c14ShowDotList(o.tags) + "/" + c14ShowOpt(o.name)
		}
		ot = strings.Join(rows, "+")
	}
	return th + ";" + ot
}

type c14Op struct {
	kind byte // 'n', 's', 't'
	val  string
}

func c14ParseOps(s string) []c14Op {
	if s == "_" {
		return nil
	}
	var res []c14Op
	for _, o := range strings.Split(s, ",") {
		if o == "n" {
			res = append(res, c14Op{kind: 'n'})
		} else {
			res = append(res, c14Op{kind: o[0], val: fromWire(o[1:])})
		}
	}
	return res
}

func c14ShowOps(ops []c14Op) string {
	if len(ops) == 0 {
		return "_"
	}
	ws := make([]string, len(ops))
	for i, o := range ops {
		if o.kind == 'n' {
			ws[i] = "n"
		} else {
			ws[i] = string(o.kind) + toWire(o.val)
		}
	}
	return strings.Join(ws, ",")
}

// ---------------------------------------------------------------------------- descriptions

type c14Node struct {
	kind string
	via  string
	tag  byte
	fwd  bool
	ne   bool
	set  []string
	set2 []string
	kids []*c14Node
	table []c14Row // allof / anyof: entity id -> roles
	world *c14World // stacked

	id   int         // fixture slot
	data interface{} // per-leaf fixture data (stores, ids)
}

func c14ParseDesc(t []string) (*c14Node, []string) {
	if len(t) == 0 {
		panic("bad desc")
	}
	n := &c14Node{kind: t[0]}
	switch t[0] {
	case "fwd", "rev":
		n.via, n.set = t[1], c14ParseSet(t[2])
		n.fwd = t[0] == "fwd"
		return n, t[3:]
	case "tfwd", "trev":
		n.via, n.tag, n.set = t[1], fromWire(t[2])[0], c14ParseSet(t[3])
		n.fwd = t[0] == "tfwd"
		return n, t[4:]
	case "setsym":
		n.set = c14ParseSet(t[1])
		n.fwd = true
		return n, t[2:]
	case "setsymnone":
		n.fwd = true
		return n, t[1:]
	case "empty":
		n.via = t[1]
		n.fwd = true
		return n, t[2:]
	case "tree":
		n.fwd, n.ne, n.set = t[1] == "f", t[2] == "1", c14ParseSet(t[3])
		return n, t[4:]
	case "filt", "valid":
		k, rest := c14ParseDesc(t[1:])
		n.kids, n.set, n.fwd = []*c14Node{k}, c14ParseSet(rest[0]), k.fwd
		return n, rest[1:]
	case "scan":
		k, rest := c14ParseDesc(t[1:])
		n.kids, n.set, n.set2, n.fwd = []*c14Node{k}, c14ParseSet(rest[0]), c14ParseSet(rest[1]), k.fwd
		return n, rest[2:]
	case "stacked":
		n.fwd = true
		n.via = t[1]
		n.set = []string{fromWire(t[2])}
		n.world = c14ParseWorld(t[3], t[4])
		return n, t[5:]
	case "allof", "anyof":
		n.fwd = t[1] == "f"
		n.table = c14ParseTable(t[2])
		n.set = c14ParseSet(t[3])
		return n, t[4:]
	case "union":
		n.fwd = t[1] == "f"
		a, rest := c14ParseDesc(t[2:])
		b, rest := c14ParseDesc(rest)
		n.kids = []*c14Node{a, b}
		return n, rest
	}
	panic("bad desc kind " + t[0])
}

func (n *c14Node) String() string {
	d := map[bool]string{true: "f", false: "r"}
	switch n.kind {
	case "fwd", "rev":
		return n.kind + ";" + n.via + ";" + c14ShowSet(n.set)
	case "tfwd", "trev":
		return n.kind + ";" + n.via + ";" + toWire(string([]byte{n.tag})) + ";" + c14ShowSet(n.set)
	case "setsym":
		return "setsym;" + c14ShowSet(n.set)
	case "setsymnone":
		return "setsymnone"
	case "empty":
		return "empty;" + n.via
	case "tree":
		ne := "0"
		if n.ne {
			ne = "1"
		}
		return "tree;" + d[n.fwd] + ";" + ne + ";" + c14ShowSet(n.set)
	case "filt", "valid":
		return n.kind + ";" + n.kids[0].String() + ";" + c14ShowSet(n.set)
	case "scan":
		return "scan;" + n.kids[0].String() + ";" + c14ShowSet(n.set) + ";" + c14ShowSet(n.set2)
	case "union":
		return "union;" + d[n.fwd] + ";" + n.kids[0].String() + ";" + n.kids[1].String()
	case "allof", "anyof":
		return n.kind + ";" + d[n.fwd] + ";" + c14ShowTable(n.table) + ";" + c14ShowSet(n.set)
	case "stacked":
		return "stacked;" + n.via + ";" + toWire(n.set[0]) + ";" + n.world.String()
	}
	return "?"
}

// ---------------------------------------------------------------------------- fixture database

const c14Root = "c14"

var c14Db *bbolt.DB

// one database per process; the file is unlinked right after it has been opened, so nothing is
// left behind whenever the process ends
func c14GetDb() *bbolt.DB {
	if c14Db != nil {
		return c14Db
	}
	dir, err := os.MkdirTemp("", "verif-*")
	if err != nil {
		panic(err)
	}
	opts := *bbolt.DefaultOptions
	opts.NoSync = true
	opts.NoFreelistSync = true
	db, err := bbolt.Open(filepath.Join(dir, "c14.db"), 0600, &opts)
	_ = os.RemoveAll(dir)
	if err != nil {
		panic(err)
	}
	c14Db = db
	return db
}

type c14Fixture struct {
	desc  string
	root  *c14Node
	next  int
	reuse *c14ReuseFx // re-use cases (c14_reuse.go)
	multi *c14MultiFx // several cursors alive at once (c14_multi.go)
}

var c14Cur *c14Fixture

func c14Must(err error) {
	if err != nil {
		panic(fmt.Sprintf("fixture: %v", err))
	}
}

func (fx *c14Fixture) slot(n *c14Node) string {
	return fmt.Sprintf("n%d", n.id)
}

// setup writes the data of the description (post-order) inside the given write transaction
func (fx *c14Fixture) setup(tx *bbolt.Tx, n *c14Node) {
	fx.next++
	n.id = fx.next
	for _, k := range n.kids {
		fx.setup(tx, k)
	}
	switch n.kind {
	case "fwd", "rev":
		switch n.via {
		case "key", "ids", "cids", "xids":
			c14StoreSetup(fx, tx, n)
		default:
			b := boltz.GetOrCreatePath(tx, c14Root, fx.slot(n))
			c14Must(b.GetError())
			for _, k := range n.set {
				c14Must(b.Bucket.Put([]byte(k), []byte("x")))
			}
		}
	case "tfwd", "trev":
		switch n.via {
		case "rel", "val", "link", "rclink":
			c14StoreSetup(fx, tx, n)
		case "new":
			// arbitrary type byte: the API only writes string lists, so the keys are put raw
			b := boltz.GetOrCreatePath(tx, c14Root, fx.slot(n))
			c14Must(b.GetError())
			for _, k := range n.set {
				c14Must(b.Bucket.Put(append([]byte{n.tag}, k...), nil))
			}
		default:
			b := boltz.GetOrCreatePath(tx, c14Root, fx.slot(n))
			c14Must(b.GetError())
			b.SetStringList("l", n.set, nil)
			c14Must(b.GetError())
		}
	case "setsym", "setsymnone", "scan", "valid", "allof", "anyof", "stacked":
		c14StoreSetup(fx, tx, n)
	case "empty":
		if n.via == "rel" || n.via == "val" || n.via == "link" || n.via == "key" {
			c14StoreSetup(fx, tx, n)
		}
	}
}

// open returns the real cursor for a description inside a transaction
func (fx *c14Fixture) open(tx *bbolt.Tx, n *c14Node) ast.SetCursor {
	switch n.kind {
	case "fwd", "rev":
		if n.via == "key" {
			return c14StoreOpen(fx, tx, n)
		}
		b := boltz.Path(tx, c14Root, fx.slot(n))
		switch n.via {
		case "seekable":
			return b.OpenSeekableCursor()
		case "open":
			return b.OpenCursor(tx, n.fwd)
		case "newdir":
			return boltz.NewBoltCursor(b.Cursor(), n.fwd)
		default: // "new"
			if n.fwd {
				return boltz.NewForwardBoltCursor(b.Cursor())
			}
			return boltz.NewReverseBoltCursor(b.Cursor())
		}
	case "tfwd", "trev":
		switch n.via {
		case "rel", "val", "link", "rclink":
			return c14StoreOpen(fx, tx, n)
		case "new":
			b := boltz.Path(tx, c14Root, fx.slot(n))
			if n.fwd {
				return boltz.NewTypedForwardBoltCursor(b.Cursor(), boltz.FieldType(n.tag))
			}
			return boltz.NewTypedReverseBoltCursor(b.Cursor(), boltz.FieldType(n.tag))
		}
		l := boltz.Path(tx, c14Root, fx.slot(n)).GetBucket("l")
		switch n.via {
		case "list":
			return l.IterateStringList()
		case "dir":
			return l.IterateStringListInDirection(n.fwd)
		default: // "typed"
			return l.OpenTypedCursor(tx, n.fwd)
		}
	case "setsym", "setsymnone", "scan", "valid", "allof", "anyof", "stacked":
		return c14StoreOpen(fx, tx, n)
	case "empty":
		switch n.via {
		case "new":
			return ast.NewEmptyCursor()
		case "var":
			return ast.EmptyCursor
		case "open":
			return ast.OpenEmptyCursor(tx, true)
		default:
			return c14StoreOpen(fx, tx, n)
		}
	case "tree":
		set := ast.NewTreeSet(n.fwd)
		for _, e := range n.set {
			if e == "" && n.ne {
				set.Add(nil)
			} else {
				set.Add([]byte(e))
			}
		}
		return set.ToCursor()
	case "filt":
		keep := map[string]bool{}
		for _, e := range n.set {
			keep[e] = true
		}
		return ast.NewFilteredCursor(fx.open(tx, n.kids[0]), func(v []byte) bool { return keep[string(v)] })
	case "union":
		return ast.NewUnionSetCursor(fx.open(tx, n.kids[0]), fx.open(tx, n.kids[1]), n.fwd)
	}
	panic("open: bad kind " + n.kind)
}

// ---------------------------------------------------------------------------- running a script

func c14Observe(c ast.SetCursor) string {
	if !c.IsValid() {
		return "i"
	}
	v := c.Current()
	if v == nil {
		return "vnil"
	}
	return "v" + toWire(string(v))
}

func c14Run(open func() ast.SetCursor, ops []c14Op) (res string) {
	var out []string
	defer func() {
		if r := recover(); r != nil {
			out = append(out, "panic")
			res = strings.Join(out, " ")
		}
	}()
	c := open()
	out = append(out, c14Observe(c))
	for _, o := range ops {
		switch o.kind {
		case 'n':
			c.Next()
		case 's':
			sc, ok := c.(ast.SeekableSetCursor)
			if !ok {
				out = append(out, "u")
				continue
			}
			sc.Seek([]byte(o.val))
		case 't':
			sc, ok := c.(ast.TypeSeekableSetCursor)
			if !ok {
				out = append(out, "u")
				continue
			}
			sc.SeekToString(o.val)
		}
		out = append(out, c14Observe(c))
	}
	return strings.Join(out, " ")
}

const c14Workers = 6

func c14Fnv(s string) uint64 {
	h := uint64(14695981039346656037)
	for i := 0; i < len(s); i++ {
		h = (h ^ uint64(s[i])) * 1099511628211
	}
	return h
}

// exhaustive block: every script of length <= k over the given operations, against the committed
// fixture in one read transaction; the outputs are folded into two digests (see the Lean driver)
func c14ExecBlock(f []string) string {
	var k int
	if _, err := fmt.Sscanf(f[2], "%d", &k); err != nil {
		return "bad-case"
	}
	alpha := c14ParseOps(f[3])
	// build (and cross-check once) the fixture through the ordinary path
	if r := c14Exec(f[1] + " _"); strings.HasPrefix(r, "tx-mismatch") {
		return r
	}
	fx := c14Cur
	type digest struct{ count, raw, norm uint64 }
	// the scripts starting with one operation are independent: one read transaction and goroutine each
	// (the fixture is committed and only read from here on)
	walk := func(first []c14Op, k int) digest {
		var d digest
		c14Must(c14GetDb().View(func(tx *bbolt.Tx) error {
			open := func() ast.SetCursor { return fx.open(tx, fx.root) }
			var rec func(prefix []c14Op, k int)
			rec = func(prefix []c14Op, k int) {
				out := c14Run(open, prefix)
				d.count++
				d.raw += c14Fnv(out)
				d.norm += c14Fnv(strings.ReplaceAll(out, "vnil", "v-"))
				if k == 0 {
					return
				}
				for _, o := range alpha {
					rec(append(prefix[:len(prefix):len(prefix)], o), k-1)
				}
			}
			rec(first, k)
			return nil
		}))
		return d
	}
	total := walk(nil, 0)
	if k > 0 {
		results := make([]digest, len(alpha))
		var wg sync.WaitGroup
		sem := make(chan struct{}, c14Workers)
		for i, o := range alpha {
			wg.Add(1)
			go func(i int, o c14Op) {
				defer wg.Done()
				sem <- struct{}{}
				defer func() { <-sem }()
				results[i] = walk([]c14Op{o}, k-1)
			}(i, o)
		}
		wg.Wait()
		for _, d := range results {
			total.count += d.count
			total.raw += d.raw
			total.norm += d.norm
		}
	}
	count, raw, norm := total.count, total.raw, total.norm
	return fmt.Sprintf("%d %d %d", count, raw, norm)
}

func c14Exec(line string) string {
	f := fields(line)
	if len(f) == 4 && f[0] == "X" {
		return c14ExecBlock(f)
	}
	if len(f) != 2 {
		return "bad-case"
	}
	if strings.HasPrefix(f[0], "R;") {
		return c14ReuseExec(f)
	}
	if strings.HasPrefix(f[0], "M;") {
		return c14MultiExec(f)
	}
	if strings.HasPrefix(f[0], "W;") {
		return c14WriteExec(f)
	}
	db := c14GetDb()
	ops := c14ParseOps(f[1])
	var first string
	fresh := false
	if c14Cur == nil || c14Cur.desc != f[0] {
		root, rest := c14ParseDesc(strings.Split(f[0], ";"))
		if len(rest) != 0 {
			return "bad-case"
		}
		fx := &c14Fixture{desc: f[0], root: root}
		err := db.Update(func(tx *bbolt.Tx) error {
			if tx.Bucket([]byte(c14Root)) != nil {
				c14Must(tx.DeleteBucket([]byte(c14Root)))
			}
			fx.setup(tx, root)
			// first run inside the writing transaction (bbolt iterates its in-memory nodes)
			first = c14Run(func() ast.SetCursor { return fx.open(tx, root) }, ops)
			return nil
		})
		c14Must(err)
		c14Cur = fx
		fresh = true
	}
	fx := c14Cur
	var res string
	// committed data, read transaction (bbolt iterates pages)
	c14Must(db.View(func(tx *bbolt.Tx) error {
		res = c14Run(func() ast.SetCursor { return fx.open(tx, fx.root) }, ops)
		return nil
	}))
	if fresh && first != res {
		return "tx-mismatch write-tx: " + first + " | read-tx: " + res
	}
	return res
}

// ---------------------------------------------------------------------------- generator

var c14Universe = []string{"", "a", "aa", "ab", "b", "\x00", "\xff", "a\x00", "\x05", "\x05a", "c"}
var c14Targets = []string{"", "a", "aa", "ab", "b", "\x00", "\xff", "a\x00", "\x05", "\x05a", "c", "0", "aaa", "\xff\xff", "\x04", "\x06", "\x05\x00"}

// a random subset: every element of the universe with probability num/den, at most max elements
func c14Subset(r *rng, universe []string, max int, noEmpty bool) []string {
	return c14SubsetP(r, universe, max, noEmpty, 1, 2)
}

func c14SubsetP(r *rng, universe []string, max int, noEmpty bool, num, den int) []string {
	var res []string
	perm := r.perm(len(universe))
	for _, i := range perm {
		e := universe[i]
		if len(res) >= max {
			break
		}
		if noEmpty && e == "" {
			continue
		}
		if r.chance(num, den) {
			res = append(res, e)
		}
	}
	return res
}

func (r *rng) perm(n int) []int {
	p := make([]int, n)
	for i := range p {
		p[i] = i
	}
	for i := n - 1; i > 0; i-- {
		j := r.intn(i + 1)
		p[i], p[j] = p[j], p[i]
	}
	return p
}

type c14Shape struct {
	name   string
	gen    func(r *rng) *c14Node
	seek   bool // emit Seek operations
	seekS  bool // emit SeekToString operations
	weight int
}

func c14Leaf(kind, via string, tag byte, set []string) *c14Node {
	return &c14Node{kind: kind, via: via, tag: tag, set: set, fwd: kind == "fwd" || kind == "tfwd" || kind == "setsym" || kind == "setsymnone" || kind == "empty"}
}

var c14RawVias = []string{"seekable", "open", "newdir", "new"}
var c14TypedVias = []string{"list", "dir", "typed", "new"}

func c14GenRaw(r *rng, fwd bool) *c14Node {
	via := pick(r, c14RawVias)
	if !fwd && via == "seekable" {
		via = "open"
	}
	kind := "rev"
	if fwd {
		kind = "fwd"
	}
	return c14Leaf(kind, via, 0, c14Subset(r, c14Universe, 7, true))
}

func c14GenTyped(r *rng, fwd bool) *c14Node {
	via := pick(r, c14TypedVias)
	if !fwd && via == "list" {
		via = "dir"
	}
	kind := "trev"
	if fwd {
		kind = "tfwd"
	}
	tag := byte(5)
	if via == "new" && r.chance(1, 2) {
		tag = pick(r, []byte{0, 1, 5, 7, 0xff})
	}
	return c14Leaf(kind, via, tag, c14Subset(r, c14Universe, 7, false))
}

// a bucket spanning several bbolt pages (branch pages on the cursor stack): filler keys around the universe
func c14BigSet(r *rng, noEmpty bool) []string {
	set := c14Subset(r, c14Universe, 7, noEmpty)
	n := 300 + r.intn(200)
	for i := 0; i < n; i++ {
		set = append(set, fmt.Sprintf("a%04d-filler-key-to-fill-the-page", i*3))
	}
	return set
}

// a cursor usable as an operand of union / filtered: sorted in the given direction, non-nil values
func c14GenOperand(r *rng, fwd bool, depth int) *c14Node {
	switch r.intn(7) {
	case 0:
		return c14GenRaw(r, fwd)
	case 1, 2:
		return c14GenTyped(r, fwd)
	case 3:
		return &c14Node{kind: "tree", fwd: fwd, set: c14Subset(r, c14Universe, 7, false)}
	case 4:
		if depth > 0 {
			return &c14Node{kind: "filt", fwd: fwd, kids: []*c14Node{c14GenOperand(r, fwd, depth-1)}, set: c14SubsetP(r, c14Universe, 11, false, 2, 3)}
		}
		return c14GenTyped(r, fwd)
	case 5:
		if depth > 0 {
			return &c14Node{kind: "union", fwd: fwd, kids: []*c14Node{c14GenOperand(r, fwd, depth-1), c14GenOperand(r, fwd, depth-1)}}
		}
		return c14GenTyped(r, fwd)
	default:
		if fwd {
			return c14Leaf("empty", pick(r, []string{"new", "var", "open"}), 0, nil)
		}
		return c14GenTyped(r, fwd)
	}
}

func c14Shapes() []c14Shape {
	shapes := []c14Shape{
		{name: "fwd", seek: true, weight: 3, gen: func(r *rng) *c14Node { return c14GenRaw(r, true) }},
		{name: "rev", seek: true, weight: 3, gen: func(r *rng) *c14Node { return c14GenRaw(r, false) }},
		{name: "tfwd", seek: true, weight: 4, gen: func(r *rng) *c14Node { return c14GenTyped(r, true) }},
		{name: "trev", seek: true, weight: 4, gen: func(r *rng) *c14Node { return c14GenTyped(r, false) }},
		{name: "empty", seek: true, weight: 1, gen: func(r *rng) *c14Node {
			return c14Leaf("empty", pick(r, []string{"new", "var", "open"}), 0, nil)
		}},
		{name: "tree", weight: 3, gen: func(r *rng) *c14Node {
			return &c14Node{kind: "tree", fwd: r.chance(1, 2), ne: r.chance(1, 4), set: c14Subset(r, c14Universe, 8, false)}
		}},
		{name: "filt", weight: 3, gen: func(r *rng) *c14Node {
			fwd := r.chance(1, 2)
			return &c14Node{kind: "filt", fwd: fwd, kids: []*c14Node{c14GenOperand(r, fwd, 1)}, set: c14SubsetP(r, c14Universe, 11, false, 2, 3)}
		}},
		{name: "union", weight: 4, gen: func(r *rng) *c14Node {
			fwd := r.chance(1, 2)
			return &c14Node{kind: "union", fwd: fwd, kids: []*c14Node{c14GenOperand(r, fwd, 1), c14GenOperand(r, fwd, 1)}}
		}},
		// a union over an operand that returns nil for the empty element (cd6cfe4)
		{name: "union-nil", weight: 2, gen: func(r *rng) *c14Node {
			var a *c14Node
			if r.chance(1, 2) {
				a = c14Leaf("setsym", "", 0, c14Subset(r, c14Universe, 5, false))
			} else {
				a = &c14Node{kind: "tree", fwd: true, ne: true, set: c14Subset(r, c14Universe, 5, false)}
			}
			b := c14GenTyped(r, true)
			if r.chance(1, 2) {
				a, b = b, a
			}
			return &c14Node{kind: "union", fwd: true, kids: []*c14Node{a, b}}
		}},
		{name: "big", seek: true, weight: 1, gen: func(r *rng) *c14Node {
			fwd := r.chance(1, 2)
			if r.chance(1, 2) {
				kind := "rev"
				if fwd {
					kind = "fwd"
				}
				return c14Leaf(kind, "open", 0, c14BigSet(r, true))
			}
			kind := "trev"
			if fwd {
				kind = "tfwd"
			}
			return c14Leaf(kind, "typed", 5, c14BigSet(r, false))
		}},
	}
	return append(shapes, c14StoreShapes()...)
}

func c14GenOps(r *rng, sh c14Shape, maxLen int, targets []string) []c14Op {
	n := r.intn(maxLen + 1)
	ops := make([]c14Op, 0, n)
	for i := 0; i < n; i++ {
		switch {
		case sh.seekS && r.chance(1, 4):
			ops = append(ops, c14Op{kind: 't', val: pick(r, targets)})
		case sh.seek && r.chance(2, 5):
			ops = append(ops, c14Op{kind: 's', val: pick(r, targets)})
		default:
			ops = append(ops, c14Op{kind: 'n'})
		}
	}
	return ops
}

// seek targets for a description: the fixed pool plus elements of its own sets and their neighbours
func c14TargetsFor(r *rng, n *c14Node) []string {
	res := append([]string{}, c14Targets...)
	var walk func(m *c14Node)
	walk = func(m *c14Node) {
		for i, e := range m.set {
			if i < 12 {
				res = append(res, e, e+"\x00")
				if len(e) > 0 {
					res = append(res, e[:len(e)-1])
				}
			}
		}
		for _, row := range m.table {
			res = append(res, row.id)
		}
		for _, k := range m.kids {
			walk(k)
		}
	}
	walk(n)
	return res
}

// ---- bounded-exhaustive blocks

type c14BlockKind struct {
	name  string
	empty bool // may the sets hold the empty string
	alpha func(targets []string) []c14Op
	mk    func(set []string) *c14Node
}

func c14SeekAlpha(kinds string) func(targets []string) []c14Op {
	return func(targets []string) []c14Op {
		ops := []c14Op{{kind: 'n'}}
		for i, t := range targets {
			k := kinds[i%len(kinds)]
			ops = append(ops, c14Op{kind: k, val: t})
		}
		return ops
	}
}

func c14BlockKinds() []c14BlockKind {
	nextOnly := func([]string) []c14Op { return []c14Op{{kind: 'n'}} }
	s := c14SeekAlpha("s")
	scanOf := func(via string) func(set []string) *c14Node {
		return func(set []string) *c14Node {
			var skip, keep []string
			for i, e := range set {
				if via == "cids" && i%3 == 1 {
					skip = append(skip, e)
				}
				if i%4 != 2 {
					keep = append(keep, e)
				}
			}
			return &c14Node{kind: "scan", fwd: true, kids: []*c14Node{c14Leaf("fwd", via, 0, set)}, set: skip, set2: keep}
		}
	}
	return []c14BlockKind{
		{name: "fwd", alpha: s, mk: func(set []string) *c14Node { return c14Leaf("fwd", "seekable", 0, set) }},
		{name: "rev", alpha: s, mk: func(set []string) *c14Node { return c14Leaf("rev", "open", 0, set) }},
		{name: "tfwd", empty: true, alpha: s, mk: func(set []string) *c14Node { return c14Leaf("tfwd", "list", 5, set) }},
		{name: "trev", empty: true, alpha: s, mk: func(set []string) *c14Node { return c14Leaf("trev", "typed", 5, set) }},
		{name: "setsym", empty: true, alpha: c14SeekAlpha("tts"), mk: func(set []string) *c14Node { return c14Leaf("setsym", "", 0, set) }},
		{name: "rel", empty: true, alpha: s, mk: func(set []string) *c14Node { return c14Leaf("trev", "rel", 5, set) }},
		{name: "val", alpha: s, mk: func(set []string) *c14Node { return c14Leaf("tfwd", "val", 5, set) }},
		{name: "key", alpha: s, mk: func(set []string) *c14Node { return c14Leaf("rev", "key", 0, set) }},
		{name: "link", alpha: s, mk: func(set []string) *c14Node { return c14Leaf("tfwd", "link", 5, set) }},
		{name: "rclink", alpha: s, mk: func(set []string) *c14Node { return c14Leaf("trev", "rclink", 5, set) }},
		{name: "scan", alpha: s, mk: scanOf("ids")},
		{name: "scan-child", alpha: s, mk: scanOf("cids")},
		{name: "valid", alpha: s, mk: func(set []string) *c14Node {
			sc := scanOf("xids")(set)
			var present []string
			for i, e := range set {
				if i%3 != 0 {
					present = append(present, e)
				}
			}
			return &c14Node{kind: "valid", fwd: true, kids: []*c14Node{sc}, set: present}
		}},
		{name: "tree", empty: true, alpha: nextOnly, mk: func(set []string) *c14Node {
			return &c14Node{kind: "tree", fwd: len(set)%2 == 0, set: set}
		}},
		{name: "filt", empty: true, alpha: nextOnly, mk: func(set []string) *c14Node {
			var keep []string
			for i, e := range set {
				if i%2 == 0 {
					keep = append(keep, e)
				}
			}
			return &c14Node{kind: "filt", fwd: false, kids: []*c14Node{c14Leaf("trev", "dir", 5, set)}, set: keep}
		}},
		{name: "union", empty: true, alpha: nextOnly, mk: func(set []string) *c14Node {
			other := []string{"aa", "\xff", "zz"}
			return &c14Node{kind: "union", fwd: true, kids: []*c14Node{c14Leaf("tfwd", "list", 5, set), &c14Node{kind: "tree", fwd: true, set: other}}}
		}},
	}
}

func c14Subsets(universe []string, maxSize int) [][]string {
	var res [][]string
	n := len(universe)
	for m := 0; m < 1<<n; m++ {
		var set []string
		for i := 0; i < n; i++ {
			if m&(1<<i) != 0 {
				set = append(set, universe[i])
			}
		}
		if len(set) <= maxSize {
			res = append(res, set)
		}
	}
	return res
}

func c14GenBlocks(tier string, out *bufio.Writer) {
	universe := []string{"", "a", "aa", "b"}
	extra := []string{"a\x00"}
	maxSet, k := 3, 3
	if tier == "thorough" {
		universe = []string{"", "a", "aa", "b", "\x00", "\xff"}
		maxSet, k = 4, 5
	}
	for _, bk := range c14BlockKinds() {
		u := universe
		if !bk.empty {
			u = append([]string{"ab"}, universe[1:]...)
		}
		targets := append(append([]string{}, u...), extra...)
		alpha := c14ShowOps(bk.alpha(targets))
		for _, set := range c14Subsets(u, maxSet) {
			fmt.Fprintf(out, "X %s %d %s\n", bk.mk(set).String(), k, alpha)
		}
	}
}

func c14Gen(tier string, seed uint64, out *bufio.Writer) {
	// newRng(seed+1) is newRng(seed) advanced by one draw; scramble so that seeds give unrelated streams
	r := &rng{s: newRng(seed).next() ^ 0xC14C14C14C14C14}
	shapes := c14Shapes()
	var bag []int
	for i, s := range shapes {
		for j := 0; j < s.weight; j++ {
			bag = append(bag, i)
		}
	}
	nDesc, perDesc := 1500, 20
	if tier == "thorough" {
		nDesc, perDesc = 8000, 40
	}
	for i := 0; i < nDesc; i++ {
		sh := shapes[pick(r, bag)]
		n := sh.gen(r)
		d := n.String()
		targets := c14TargetsFor(r, n)
		scripts := perDesc
		if sh.name == "big" {
			scripts = 6
		}
		// the full enumeration first (Next only), then random scripts
		if sh.name != "big" {
			fmt.Fprintf(out, "%s n,n,n,n,n,n,n,n,n\n", d)
		}
		for j := 0; j < scripts; j++ {
			fmt.Fprintf(out, "%s %s\n", d, c14ShowOps(c14GenOps(r, sh, 6, targets)))
		}
	}
	c14GenReuse(tier, r, out)
	c14GenLong(tier, r, out)
	c14GenMulti(tier, r, out)
	c14GenWrites(tier, r, out)
	c14GenBlocks(tier, out)
}
