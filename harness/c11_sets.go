package main

import (
	"bufio"
	"fmt"
	"os"
	"sort"
	"strconv"
	"strings"
	"time"

	"github.com/openziti/storage/ast"
	"github.com/openziti/storage/boltz"
	"go.etcd.io/bbolt"
)

// s <s> <filter in prefix form> . (R (S <elem>...)^2)+
//
// A whole filter over the string SET symbols ta and tb: comparisons `anyOf(t) <op> lit` / `allOf(t) <op> lit` and
// in-lists `anyOf(t) in [lit, ...]` under and / or / not, several comparisons naming the same set symbol with different
// literals (so whatever the per-query runtime object of the set symbol remembers between two comparisons - cursor,
// seek key - is on the path; `anyOf(t) = lit` takes the seek shortcut).  Rows: one entity per `R`, its two sets.  Run
// (1) through ast.Parse + EvalBool over in-memory symbols with one seekable cursor object per symbol, the rows one after
// the other, (2) through Store.QueryIds of a bolt store with two set symbols.  Output: verdict bits per row, twice.
//
//	A x y | O x y | N x | Q <any|all> <sym> <op> <lit> <s> | J <any|all> <sym> <k> (<lit> <s>)^k

// characters that mean something in glob / regex / SQL-LIKE patterns (in a literal they denote themselves)
const c11Meta = "*%_?.^$[]!~/|+{}()"

// c11MetaFields: field values a pattern reading of s would match: for the first, the last and a middle metacharacter
// of s, s with that character dropped, replaced by one character, replaced by two characters
func c11MetaFields(s string) []string {
	var idx []int
	for i := 0; i < len(s); i++ {
		if strings.IndexByte(c11Meta, s[i]) >= 0 {
			idx = append(idx, i)
		}
	}
	if len(idx) == 0 {
		return nil
	}
	sel := []int{idx[0]}
	if len(idx) > 1 {
		sel = append(sel, idx[len(idx)-1])
	}
	if len(idx) > 2 {
		sel = append(sel, idx[len(idx)/2])
	}
	var out []string
	for _, i := range sel {
		out = append(out, s[:i]+s[i+1:], s[:i]+"z"+s[i+1:], s[:i]+"zz"+s[i+1:])
	}
	return out
}

var c11SetOps = []string{"eq", "eq", "eq", "ne", "contains", "ncontains"}
var c11SetOpsAscii = []string{"eq", "eq", "eq", "eq", "ne", "contains", "ncontains", "icontains", "nicontains"}

type c11SetNode struct {
	kind  string // A O N Q J
	kids  []*c11SetNode
	quant string
	sym   int
	op    string
	strs  []string
}

func c11GenSetLeaf(r *rng, pool []string, ascii bool) *c11SetNode {
	n := &c11SetNode{quant: "any", sym: 0}
	if r.chance(1, 4) {
		n.quant = "all"
	}
	if r.chance(1, 3) {
		n.sym = 1
	}
	if r.chance(1, 5) {
		n.kind = "J"
		for k := 1 + r.intn(3); k > 0; k-- {
			n.strs = append(n.strs, pick(r, pool))
		}
		return n
	}
	n.kind = "Q"
	if ascii {
		n.op = pick(r, c11SetOpsAscii)
	} else {
		n.op = pick(r, c11SetOps)
	}
	n.strs = []string{pick(r, pool)}
	return n
}

func c11GenSetTree(r *rng, pool []string, ascii bool, depth int) *c11SetNode {
	if depth == 0 || r.chance(1, 4) {
		return c11GenSetLeaf(r, pool, ascii)
	}
	switch r.intn(6) {
	case 0:
		return &c11SetNode{kind: "N", kids: []*c11SetNode{c11GenSetTree(r, pool, ascii, depth-1)}}
	case 1, 2:
		return &c11SetNode{kind: "A", kids: []*c11SetNode{c11GenSetTree(r, pool, ascii, depth-1), c11GenSetTree(r, pool, ascii, depth-1)}}
	default:
		return &c11SetNode{kind: "O", kids: []*c11SetNode{c11GenSetTree(r, pool, ascii, depth-1), c11GenSetTree(r, pool, ascii, depth-1)}}
	}
}

func (n *c11SetNode) wire(b *strings.Builder) {
	switch n.kind {
	case "Q":
		fmt.Fprintf(b, " Q %s %d %s %s %s", n.quant, n.sym, n.op, toWire(c11Escape(n.strs[0], nil, true)), toWire(n.strs[0]))
	case "J":
		fmt.Fprintf(b, " J %s %d %d", n.quant, n.sym, len(n.strs))
		for _, s := range n.strs {
			fmt.Fprintf(b, " %s %s", toWire(c11Escape(s, nil, true)), toWire(s))
		}
	default:
		b.WriteString(" " + n.kind)
		for _, k := range n.kids {
			k.wire(b)
		}
	}
}

func c11EmitSets(out *bufio.Writer, s string, r *rng) {
	ascii := c11IsAscii(s)
	rs := []rune(s)
	// literals: s, an extension, a cut, a sibling (last character changed): strings that sort next to each other
	lits := []string{s, s, s + pick(r, c11Alphabet)}
	if len(rs) > 0 {
		lits = append(lits, string(rs[:len(rs)-1]), string(rs[:len(rs)-1])+pick(r, c11Alphabet))
	}
	if len(rs) > 1 {
		lits = append(lits, string(rs[1:]))
	}
	// elements: the literals, strings between / right after them in key order, what a pattern reading would match
	elems := append([]string{}, lits...)
	for _, l := range lits[1:] {
		elems = append(elems, l+pick(r, c11Alphabet), l+"x")
	}
	elems = append(elems, c11MetaFields(s)...)
	elems = append(elems, c11MetaFields(lits[2])...)
	if ascii {
		elems = append(elems, strings.ToUpper(s), strings.ToLower(s))
	}
	elems = append(elems, "", pick(r, c11Alphabet))
	tree := c11GenSetTree(r, lits, ascii, 1+r.intn(2))
	if tree.kind == "Q" || tree.kind == "J" {
		other := c11GenSetLeaf(r, lits, ascii)
		if r.chance(2, 3) {
			// the same set symbol and the seekable form twice: `anyOf(t) = a or anyOf(t) = b`
			other.sym = tree.sym
			if tree.kind == "Q" && r.chance(1, 2) {
				tree.quant, tree.op, other.kind, other.quant, other.op = "any", "eq", "Q", "any", "eq"
				other.strs = other.strs[:1]
			}
		}
		tree = &c11SetNode{kind: pick(r, []string{"A", "O", "O"}), kids: []*c11SetNode{tree, other}}
		if r.chance(1, 2) {
			tree.kids[0], tree.kids[1] = tree.kids[1], tree.kids[0]
		}
	}
	var b strings.Builder
	tree.wire(&b)
	fmt.Fprintf(out, "s %s%s .", toWire(s), b.String())
	for rows := 3 + r.intn(3); rows > 0; rows-- {
		out.WriteString(" R")
		for sym := 0; sym < 2; sym++ {
			out.WriteString(" S")
			seen := map[string]bool{}
			for k := r.intn(5); k > 0; k-- {
				e := pick(r, elems)
				if !seen[e] {
					seen[e] = true
					fmt.Fprintf(out, " %s", toWire(e))
				}
			}
		}
	}
	out.WriteByte('\n')
}

// identifiers of the filter language are letters only
func c11SetSymName(sym string) string {
	if sym == "1" {
		return "tb"
	}
	return "ta"
}

func c11SetAtomText(quant string, sym string, op, lit string) string {
	lhs := quant + "Of(" + c11SetSymName(sym) + ")"
	switch op {
	case "eq":
		return lhs + " = " + lit
	case "ne":
		return lhs + " != " + lit
	case "contains":
		return lhs + " contains " + lit
	case "ncontains":
		return lhs + " not contains " + lit
	case "icontains":
		return lhs + " icontains " + lit
	case "nicontains":
		return lhs + " not icontains " + lit
	}
	return ""
}

func c11ParseSetFilter(tok []string) (string, []string, bool) {
	if len(tok) == 0 {
		return "", nil, false
	}
	switch tok[0] {
	case "A", "O":
		a, rest, ok := c11ParseSetFilter(tok[1:])
		if !ok {
			return "", nil, false
		}
		b, rest, ok := c11ParseSetFilter(rest)
		if !ok {
			return "", nil, false
		}
		if tok[0] == "A" {
			return "(" + a + " and " + b + ")", rest, true
		}
		return "(" + a + " or " + b + ")", rest, true
	case "N":
		a, rest, ok := c11ParseSetFilter(tok[1:])
		if !ok {
			return "", nil, false
		}
		return "(not (" + a + "))", rest, true
	case "Q":
		if len(tok) < 6 || (tok[1] != "any" && tok[1] != "all") || (tok[2] != "0" && tok[2] != "1") {
			return "", nil, false
		}
		q := c11SetAtomText(tok[1], tok[2], tok[3], fromWire(tok[4]))
		return q, tok[6:], q != ""
	case "J":
		if len(tok) < 4 || (tok[1] != "any" && tok[1] != "all") || (tok[2] != "0" && tok[2] != "1") {
			return "", nil, false
		}
		k, err := strconv.Atoi(tok[3])
		if err != nil || len(tok) < 4+2*k {
			return "", nil, false
		}
		var lits []string
		for i := 0; i < k; i++ {
			lits = append(lits, fromWire(tok[4+2*i]))
		}
		return tok[1] + "Of(" + c11SetSymName(tok[2]) + ") in [" + strings.Join(lits, ", ") + "]", tok[4+2*k:], true
	}
	return "", nil, false
}

// in-memory symbols over set fields: one cursor object per symbol name for the whole query (as rowCursorImpl caches one
// runtime symbol per name), reset by OpenSetCursor; the symbol evaluates to the cursor's current element
type c11SetCursor struct {
	vals []string
	pos  int
}

func (c *c11SetCursor) Next()           { c.pos++ }
func (c *c11SetCursor) IsValid() bool   { return c.pos < len(c.vals) }
func (c *c11SetCursor) Current() []byte { return []byte(c.vals[c.pos]) }
func (c *c11SetCursor) Seek(v []byte)   { c.pos = sort.SearchStrings(c.vals, string(v)) }
func (c *c11SetCursor) SeekToString(v string) {
	c.pos = sort.SearchStrings(c.vals, v)
}

type c11SetSyms struct {
	sets    map[string][]string
	cursors map[string]*c11SetCursor
}

func (m *c11SetSyms) GetSymbolType(name string) (ast.NodeType, bool) {
	if name == "ta" || name == "tb" {
		return ast.NodeTypeString, true
	}
	return 0, false
}
func (m *c11SetSyms) GetSetSymbolTypes(string) ast.SymbolTypes { return nil }
func (m *c11SetSyms) IsSet(name string) (bool, bool) {
	_, ok := m.GetSymbolType(name)
	return ok, ok
}
func (m *c11SetSyms) EvalBool(string) *bool { return nil }
func (m *c11SetSyms) EvalString(name string) *string {
	if c := m.cursors[name]; c != nil && c.IsValid() {
		v := c.vals[c.pos]
		return &v
	}
	return nil
}
func (m *c11SetSyms) EvalInt64(string) *int64        { return nil }
func (m *c11SetSyms) EvalFloat64(string) *float64    { return nil }
func (m *c11SetSyms) EvalDatetime(string) *time.Time { return nil }
func (m *c11SetSyms) IsNil(name string) bool         { return m.EvalString(name) == nil }
func (m *c11SetSyms) OpenSetCursor(name string) ast.SetCursor {
	c := m.cursors[name]
	if c == nil {
		c = &c11SetCursor{}
		m.cursors[name] = c
	}
	c.vals, c.pos = m.sets[name], 0
	return c
}
func (m *c11SetSyms) OpenSetCursorForQuery(name string, _ ast.Query) ast.SetCursor {
	return m.OpenSetCursor(name)
}

func c11SortedSet(ws []string) []string {
	seen := map[string]bool{}
	var out []string
	for _, w := range ws {
		v := fromWire(w)
		if !seen[v] {
			seen[v] = true
			out = append(out, v)
		}
	}
	sort.Strings(out)
	return out
}

func c11ExecSets(f []string) string {
	q, rest, ok := c11ParseSetFilter(f[2:])
	if !ok || len(rest) == 0 || rest[0] != "." {
		return "bad-case"
	}
	// rows
	var rows [][2][]string
	var cur [][]string
	flush := func() {
		if cur != nil {
			var row [2][]string
			for i := 0; i < 2 && i < len(cur); i++ {
				row[i] = c11SortedSet(cur[i])
			}
			rows = append(rows, row)
		}
	}
	for _, t := range rest[1:] {
		switch t {
		case "R":
			flush()
			cur = [][]string{}
		case "S":
			cur = append(cur, []string{})
		default:
			if len(cur) == 0 {
				return "bad-case"
			}
			cur[len(cur)-1] = append(cur[len(cur)-1], t)
		}
	}
	flush()

	// (1) memory symbols
	syms := &c11SetSyms{sets: map[string][]string{}, cursors: map[string]*c11SetCursor{}}
	query, err := ast.Parse(syms, q)
	var mem strings.Builder
	if err != nil {
		mem.WriteString("parse-error")
	} else {
		for _, row := range rows {
			syms.sets["ta"], syms.sets["tb"] = row[0], row[1]
			if query.EvalBool(syms) {
				mem.WriteByte('1')
			} else {
				mem.WriteByte('0')
			}
		}
	}

	// (2) bolt store
	return mem.String() + " " + c11ExecSetsBolt(q, rows)
}

func c11ExecSetsBolt(q string, rows [][2][]string) string {
	dir, err := os.MkdirTemp("", "verif-*")
	if err != nil {
		return "tmp-error"
	}
	defer os.RemoveAll(dir)
	db, err := bbolt.Open(dir+"/c11s.db", 0600, &bbolt.Options{NoSync: true, NoFreelistSync: true, Timeout: time.Second})
	if err != nil {
		return "open-error"
	}
	defer db.Close()
	def := (&boltz.StoreDefinition[boltz.Entity]{EntityType: "things"}).WithBasePath("u")
	store := boltz.NewBaseStore(*def)
	store.AddIdSymbol("id", ast.NodeTypeString)
	store.AddSymbol("name", ast.NodeTypeString)
	store.AddSetSymbol("ta", ast.NodeTypeString)
	store.AddSetSymbol("tb", ast.NodeTypeString)
	id := func(i int) string { return fmt.Sprintf("r%03d", i) }
	err = db.Update(func(tx *bbolt.Tx) error {
		base := boltz.GetOrCreatePath(tx, "u", "things")
		for i, row := range rows {
			b := base.GetOrCreatePath(id(i))
			b.SetString("name", id(i), nil)
			b.SetStringList("ta", row[0], nil)
			b.SetStringList("tb", row[1], nil)
			if b.Err != nil {
				return b.Err
			}
		}
		return base.Err
	})
	if err != nil {
		return "write-error"
	}
	var ids []string
	err = db.View(func(tx *bbolt.Tx) error {
		var e error
		ids, _, e = store.QueryIds(tx, q)
		return e
	})
	if err != nil {
		return "query-error"
	}
	got := map[string]bool{}
	for _, i := range ids {
		got[i] = true
	}
	var b strings.Builder
	for i := range rows {
		if got[id(i)] {
			b.WriteByte('1')
		} else {
			b.WriteByte('0')
		}
	}
	if len(ids) != len(got) {
		b.WriteString("+dup")
	}
	return b.String()
}
