package main

import (
	"bufio"
	"strings"
)

// c13GenOverrides: COMPOSITION of context derivations.  WithFieldOverrides applied 2-3 times - chained
// ({a>b} then {c>a}), overlapping, identity, cyclic, tables naming unknown fields - on one context (e cases,
// `m=t1;t2;t3`), and interleaved with GetParentContext and nested buckets (h cases: tables on the context in one
// or in successive blocks, then on / inherited by the derived parent context, then a GetOrCreatePath bucket written
// under the composed checker), each sequence under EVERY subset of the three fields a, b, c as checker.  Every case
// writes a, b and c over a pre-state, so which fields the composed checker lets through shows in what is read back.
func c13GenOverrides(tier string, r *rng, out *bufio.Writer) {
	names := []string{"a", "b", "c"}
	w := func(s string) string { return toWire(s) }
	pair := func(x, y string) string { return w(x) + ">" + w(y) }
	var tables []string
	for _, x := range names {
		for _, y := range names {
			tables = append(tables, pair(x, y)) // 9 single renamings, identities included
		}
	}
	tables = append(tables,
		pair("a", "b")+","+pair("b", "a"),                    // swap
		pair("a", "b")+","+pair("b", "c"),                    // chain inside one table
		pair("a", "b")+","+pair("b", "c")+","+pair("c", "a"), // cycle
		pair("a", "x")+","+pair("x", "a"),                    // through an unknown name
		pair("c", "x"),
		pair("x", "c"),
	)
	pre := []c13Field{{"str", &c13Val{kind: 'S', s: "0"}}, {"i64", &c13Val{kind: 'I', i: 0}}, {"sl", &c13Val{kind: 'L', vals: []*c13Val{{kind: 'S', s: "0"}}}}}
	wr := []c13Field{{"str", &c13Val{kind: 'S', s: "1"}}, {"i64", &c13Val{kind: 'I', i: 1}}, {"sl", &c13Val{kind: 'L', vals: []*c13Val{{kind: 'S', s: "1"}}}}}
	var seqs [][]string
	for _, t1 := range tables {
		for _, t2 := range tables {
			seqs = append(seqs, []string{t1, t2})
		}
	}
	n3 := 120
	if tier == "thorough" {
		n3 = 1500
	}
	for i := 0; i < n3; i++ {
		seqs = append(seqs, []string{pick(r, tables), pick(r, tables), pick(r, tables)})
	}
	hx := []string{w("ext"), w("e") + "/" + w("x")}
	for si, sq := range seqs {
		for mask := 0; mask < 8; mask++ {
			chk := c13ChkText(names, mask)
			if mask == 7 && si%5 == 0 {
				chk += "," + w("x")
			}
			// quick tier: every sequence of two under every subset as an e case, the h shapes rotate
			var ops []string
			for i, n := range names {
				if (si+i)%4 != 0 {
					ops = append(ops, c13OpText(true, n, pre[i]))
				}
			}
			for i, n := range names {
				ops = append(ops, c13OpText(false, n, wr[i]))
			}
			c13EmitE(out, chk, "m="+strings.Join(sq, ";"), ops)
			if tier != "thorough" && (si+mask)%4 != 0 {
				continue
			}
			var preP, preC, wrP, wrC []string
			for i, n := range names {
				if (si+i)%4 != 0 {
					preP = append(preP, c13HOpText(n, pre[i]))
					preC = append(preC, c13HOpText(n, pre[(i+1)%3]))
				}
				wrP = append(wrP, c13HOpText(n, wr[i]))
				wrC = append(wrC, c13HOpText(n, wr[(i+1)%3]))
			}
			toks := append(append([]string{"@p^"}, preP...), append([]string{"@p."}, preC...)...)
			rest := sq[1:]
			switch (si/4 + mask) % 5 {
			case 0: // all tables on the context at once, then the parent context inherits the composition
				toks = append(toks, "@w.~"+strings.Join(sq, "~"))
				toks = append(toks, wrC...)
				toks = append(append(toks, "@w^"), wrP...)
			case 1: // first table on the context (child store), the others on the derived parent context
				toks = append(append(toks, "@w.~"+sq[0]), wrC...)
				toks = append(append(toks, "@w^~"+strings.Join(rest, "~")), wrP...)
			case 2: // one table per block on the context, parent block in between
				toks = append(append(toks, "@w.~"+sq[0]), wrC[:1]...)
				toks = append(append(toks, "@w^"), wrP...)
				toks = append(append(toks, "@w.~"+strings.Join(rest, "~")), wrC...)
				toks = append(append(toks, "@w^"), wrP[1:]...)
			case 3: // everything on the parent context only; the context itself stays unmapped
				toks = append(append(toks, "@w^~"+strings.Join(sq, "~")), wrP...)
				toks = append(append(toks, "@w."), wrC...)
			default: // a nested bucket below the parent context, written under the composed checker
				toks = append(append(toks, "@p^/"+w("sub")), preP...)
				toks = append(append(toks, "@w.~"+sq[0]), wrC[2:]...)
				toks = append(append(toks, "@w^/"+w("sub")+"~"+strings.Join(rest, "~")), wrP...)
			}
			via := "x="
			if (si+mask)%3 == 0 {
				via = "X="
			}
			c13EmitH(out, via+hx[si%2], chk, toks)
		}
	}
}
