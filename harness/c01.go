package main

import (
	"bufio"
	"fmt"
	"math"
	"sort"
	"strconv"
	"strings"
	"time"

	"github.com/openziti/storage/ast"
	"github.com/openziti/storage/boltz"
)

// C01 — filter evaluation returns exactly the satisfying entities.
//
// Case lines (see lean/StorageModel/Driver/C01.lean for the grammar):
//
//	m …   ast.Parse + Query.EvalBool over an in-memory ast.Symbols (ties ast/ + boltz.FieldTo*)
//	b …   Store.QueryIds / IterateIds over a real bbolt store (c01_bolt.go)
//
// Output of `exec` for an m case:  ok <shape> <bits with seekable cursors> <bits with plain cursors>
//                                | err            (ast.Parse returned an error)
func init() {
	register("c01", &propHarness{gen: c01Gen, exec: c01Exec})
}

var c01TypeTok = map[ast.NodeType]string{ast.NodeTypeBool: "b", ast.NodeTypeDatetime: "t", ast.NodeTypeFloat64: "f",
	ast.NodeTypeInt64: "i", ast.NodeTypeString: "s", ast.NodeTypeAnyType: "a"}
var c01TokType = map[string]ast.NodeType{"b": ast.NodeTypeBool, "t": ast.NodeTypeDatetime, "f": ast.NodeTypeFloat64,
	"i": ast.NodeTypeInt64, "s": ast.NodeTypeString, "a": ast.NodeTypeAnyType}

// ------------------------------------------------------------------------------------ value pools

var c01Strs = []string{"", "a", "A", "ab", "abc", "b", "5", "1.5", "true", "x y", `q"t`, `b\s`, "abcd", "ABC", "aB", "0.5", "-1", "7"}
var c01Ints = []int64{0, 1, -1, 5, 7, 2, 2147483648, 9007199254740993, math.MaxInt64, math.MinInt64}
var c01Int32s = []int32{0, 1, -1, 5, 7, math.MaxInt32, math.MinInt32}
var c01Floats = []float64{0.5, -0.25, 1.5, 5, 0, math.Copysign(0, -1), 1e300, math.Inf(1), math.Inf(-1), math.NaN(), 9007199254740992, 7, 2.5}

type c01FloatLit struct {
	txt string
	v   float64
}

// spellings that the lexer accepts as NUMBER and that strconv.ParseInt rejects (so the listener
// builds a Float64ConstNode)
var c01FloatLits = []c01FloatLit{{"0.5", 0.5}, {"-0.25", -0.25}, {"1.5", 1.5}, {"5.0", 5}, {"2.5", 2.5}, {"1e3", 1000},
	{"9223372036854775808", 9223372036854775808}, {"1.0e300", 1e300}, {"0.0", 0}, {"7.0", 7}, {"-1.0", -1}}

func c01MkTime(text string) c01Time {
	t, err := time.Parse(time.RFC3339, text)
	if err != nil {
		panic(err)
	}
	return c01Time{nanos: t.UnixNano(), text: text}
}

var c01Times = []c01Time{c01MkTime("2020-01-02T03:04:05Z"), c01MkTime("2020-01-02T08:34:05+05:30"),
	c01MkTime("2020-01-02T03:04:05.5Z"), c01MkTime("1999-12-31T23:59:59-08:00"), c01MkTime("2021-06-01T00:00:00Z")}

func c01TimeOf(t c01Time) time.Time {
	r, _ := time.Parse(time.RFC3339, t.text)
	return r
}

func c01RandVal(r *rng, typ ast.NodeType) c01Val {
	if r.chance(1, 4) {
		return c01Nil()
	}
	if typ == ast.NodeTypeAnyType || r.chance(1, 25) {
		// any-typed symbols hold anything; other symbols occasionally hold a value of another
		// stored type (the coercions decide what is readable)
		typ = pick(r, []ast.NodeType{ast.NodeTypeBool, ast.NodeTypeDatetime, ast.NodeTypeFloat64, ast.NodeTypeInt64, ast.NodeTypeString})
	}
	switch typ {
	case ast.NodeTypeBool:
		return c01Bool(r.chance(1, 2))
	case ast.NodeTypeDatetime:
		return c01TimeVal(c01TimeOf(pick(r, c01Times)))
	case ast.NodeTypeFloat64:
		return c01Float(pick(r, c01Floats))
	case ast.NodeTypeInt64:
		if r.chance(1, 3) {
			return c01Int32(pick(r, c01Int32s))
		}
		return c01Int64(pick(r, c01Ints))
	}
	return c01Str(pick(r, c01Strs))
}

// a set as a bbolt bucket would hold it: typed keys, sorted, duplicate free
func c01SortSet(vals []c01Val) []c01Val {
	sort.Slice(vals, func(i, j int) bool { return string(vals[i].key()) < string(vals[j].key()) })
	out := vals[:0]
	for i, v := range vals {
		if i == 0 || string(v.key()) != string(vals[i-1].key()) {
			out = append(out, v)
		}
	}
	return out
}

func c01RandSet(r *rng, typ ast.NodeType, stringsOnly bool) []c01Val {
	n := r.intn(5)
	var vals []c01Val
	for i := 0; i < n; i++ {
		var v c01Val
		if stringsOnly {
			v = c01Str(pick(r, c01Strs))
		} else {
			v = c01RandVal(r, typ)
			if v.ft == 7 && r.chance(2, 3) {
				v = c01Str(pick(r, c01Strs))
			}
		}
		vals = append(vals, v)
	}
	return c01SortSet(vals)
}

// ------------------------------------------------------------------------------------ mem universe

var c01MemSyms = []*c01Sym{
	{"sa", ast.NodeTypeString, false, false}, {"sb", ast.NodeTypeString, false, false},
	{"na", ast.NodeTypeInt64, false, false}, {"nb", ast.NodeTypeInt64, false, false},
	{"fa", ast.NodeTypeFloat64, false, false}, {"ba", ast.NodeTypeBool, false, false},
	{"da", ast.NodeTypeDatetime, false, false}, {"xa", ast.NodeTypeAnyType, false, false},
	{"xb", ast.NodeTypeAnyType, false, false},
	{"ss", ast.NodeTypeString, true, true}, {"st", ast.NodeTypeString, true, false},
	{"si", ast.NodeTypeInt64, true, false}, {"sx", ast.NodeTypeAnyType, true, true},
	{"sm", ast.NodeTypeAnyType, true, false}, {"sf", ast.NodeTypeFloat64, true, false},
	{"sd", ast.NodeTypeDatetime, true, false}, {"sq", ast.NodeTypeBool, true, false},
	// a seekable set of ints (every direct set symbol of a store is seekable, whatever its type)
	{"sn", ast.NodeTypeInt64, true, true},
}

func c01MemRow(r *rng) *c01Row {
	row := &c01Row{scalars: map[string]c01Val{}, sets: map[string][]c01Val{}}
	for _, s := range c01MemSyms {
		if s.isSet {
			// only the string-typed seekable set holds nothing but strings: `sx` (any) and `sn` (int) are
			// seekable buckets with elements of other types
			row.sets[s.name] = c01RandSet(r, s.typ, s.name == "ss")
		} else {
			row.scalars[s.name] = c01RandVal(r, s.typ)
		}
	}
	return row
}

// ------------------------------------------------------------------------------------ filter generator

type c01Schema struct {
	scalars []*c01Sym          // non-set symbols usable on the left of a comparison
	sets    []*c01Sym          // set symbols
	subs    map[string]*c01Schema // set symbol -> schema of the linked entity type (sub-queries)
}

func c01SchemaOf(syms []*c01Sym) *c01Schema {
	sc := &c01Schema{subs: map[string]*c01Schema{}}
	for _, s := range syms {
		if s.isSet {
			sc.sets = append(sc.sets, s)
		} else {
			sc.scalars = append(sc.scalars, s)
		}
	}
	return sc
}

func c01RandLit(r *rng, kind byte) c01Lit {
	switch kind {
	case 's':
		return c01Lit{kind: 's', s: pick(r, c01Strs)}
	case 'i':
		return c01Lit{kind: 'i', i: pick(r, c01Ints)}
	case 'f':
		fl := pick(r, c01FloatLits)
		return c01Lit{kind: 'f', f: fl.v, ftxt: fl.txt}
	case 't':
		return c01Lit{kind: 't', t: pick(r, c01Times)}
	case 'b':
		return c01Lit{kind: 'b', b: r.chance(1, 2)}
	}
	return c01Lit{kind: 'n'}
}

var c01CmpOps = []string{"eq", "ne", "lt", "le", "gt", "ge"}

// literal kinds the documented typing admits for a left operand of type typ and operator op
func c01OkLits(typ ast.NodeType, op string) []byte {
	switch op {
	case "contains", "ncontains":
		switch typ {
		case ast.NodeTypeString, ast.NodeTypeInt64, ast.NodeTypeFloat64, ast.NodeTypeAnyType:
			return []byte{'s', 'i', 'f'}
		}
		return nil
	case "icontains", "nicontains":
		switch typ {
		case ast.NodeTypeString, ast.NodeTypeAnyType:
			return []byte{'s'}
		}
		return nil
	}
	switch typ {
	case ast.NodeTypeBool:
		if op == "eq" || op == "ne" {
			return []byte{'b'}
		}
		return nil
	case ast.NodeTypeDatetime:
		return []byte{'t'}
	case ast.NodeTypeFloat64, ast.NodeTypeInt64:
		return []byte{'i', 'f'}
	case ast.NodeTypeString:
		return []byte{'s', 'i', 'f'}
	case ast.NodeTypeAnyType:
		if op == "eq" || op == "ne" {
			return []byte{'b', 't', 'f', 'i', 's'}
		}
		return []byte{'t', 'f', 'i', 's'}
	}
	return nil
}

// literal kinds the grammar admits after an operator (anything else is a syntax error, which is
// C10's subject)
func c01GrammarLits(op string) []byte {
	switch op {
	case "eq", "ne":
		return []byte{'s', 'i', 'f', 't', 'b', 'n'}
	case "lt", "le", "gt", "ge":
		return []byte{'s', 'i', 'f', 't'}
	case "contains", "ncontains":
		return []byte{'s', 'i', 'f'}
	}
	return []byte{'s'}
}

var c01AllOps = []string{"eq", "ne", "lt", "le", "gt", "ge", "contains", "ncontains", "icontains", "nicontains"}

type c01Gen_ struct {
	r       *rng
	illRate int // 1 in illRate atoms ignores the typing rules (0 = never)
	hist    map[string]int
}

func (g *c01Gen_) count(k string) {
	if g.hist != nil {
		g.hist[k]++
	}
}

// a left operand and its type; nullable = may be compared with null
func (g *c01Gen_) lhs(sc *c01Schema, depth int) (*c01Node, ast.NodeType, bool) {
	r := g.r
	k := r.intn(10)
	if len(sc.sets) == 0 || k < 4 {
		s := pick(r, sc.scalars)
		g.count("lhs:sym")
		return &c01Node{kind: "sym", name: s.name}, s.typ, true
	}
	s := pick(r, sc.sets)
	switch {
	case k < 6:
		g.count("lhs:anyOf")
		return &c01Node{kind: "fn", fn: "anyOf", name: s.name}, s.typ, true
	case k < 8:
		g.count("lhs:allOf")
		return &c01Node{kind: "fn", fn: "allOf", name: s.name}, s.typ, true
	}
	if sub := sc.subs[s.name]; sub != nil && depth > 0 && r.chance(1, 2) {
		g.count("lhs:count-subquery")
		return g.subQuery("count", s.name, sub, depth-1), ast.NodeTypeInt64, false
	}
	g.count("lhs:count")
	return &c01Node{kind: "fn", fn: "count", name: s.name}, ast.NodeTypeInt64, false
}

// sort fields for a sub-query over `sub`: non-set symbols of a sortable type; one time in illRate any
// symbol at all (sets, any-typed map elements) or an unknown name
func (g *c01Gen_) sortFields(sub *c01Schema) []c01Sort {
	r := g.r
	var out []c01Sort
	for i := 1 + r.intn(2); i > 0; i-- {
		var name string
		switch {
		case g.illRate > 0 && r.chance(1, g.illRate):
			switch r.intn(3) {
			case 0:
				name = "nosuch"
			case 1:
				if len(sub.sets) > 0 {
					name = pick(r, sub.sets).name
					break
				}
				fallthrough
			default:
				name = pick(r, sub.scalars).name
			}
		default:
			var ok []*c01Sym
			for _, s := range sub.scalars {
				if s.typ != ast.NodeTypeAnyType {
					ok = append(ok, s)
				}
			}
			if len(ok) == 0 {
				return out
			}
			name = pick(r, ok).name
		}
		out = append(out, c01Sort{name: name, dir: pick(r, []string{"", "asc", "desc", "desc"})})
	}
	return out
}

func (g *c01Gen_) subQuery(fn, name string, sub *c01Schema, depth int) *c01Node {
	n := &c01Node{kind: "sub", fn: fn, name: name, q: g.filter(sub, depth)}
	if g.r.chance(1, 2) {
		n.sort = g.sortFields(sub)
	}
	if g.r.chance(1, 4) {
		v := int64(g.r.intn(4)) - 1
		n.skip = &v
	}
	if g.r.chance(1, 4) {
		v := int64(g.r.intn(4)) - 1
		n.limit = &v
	}
	return n
}

func (g *c01Gen_) atom(sc *c01Schema, depth int) *c01Node {
	r := g.r
	ill := g.illRate > 0 && r.chance(1, g.illRate)
	switch k := r.intn(20); {
	case k == 0:
		g.count("atom:boolconst")
		return &c01Node{kind: "bc", b: r.chance(1, 2)}
	case k == 1:
		// symbol in boolean position
		var cands []*c01Sym
		for _, s := range sc.scalars {
			if ill || s.typ == ast.NodeTypeBool || s.typ == ast.NodeTypeAnyType {
				cands = append(cands, s)
			}
		}
		if len(cands) > 0 {
			g.count("atom:boolsym")
			return &c01Node{kind: "sym", name: pick(r, cands).name}
		}
		return &c01Node{kind: "bc", b: true}
	case k == 2 && len(sc.sets) > 0:
		s := pick(r, sc.sets)
		if sub := sc.subs[s.name]; sub != nil && depth > 0 && r.chance(1, 2) {
			g.count("atom:isEmpty-subquery")
			return g.subQuery("isEmpty", s.name, sub, depth-1)
		}
		g.count("atom:isEmpty")
		return &c01Node{kind: "fn", fn: "isEmpty", name: s.name}
	case k < 12:
		l, typ, nullable := g.lhs(sc, depth)
		op := pick(r, c01AllOps)
		if r.chance(1, 2) {
			op = pick(r, c01CmpOps)
		}
		var kinds []byte
		if ill {
			kinds = c01GrammarLits(op)
			if !nullable {
				// `count(s) = null` is accepted by the typing pass (CountSetExprNode has a Symbol()
				// method) and evaluates IsNil on a set symbol whose cursor was never opened: a nil
				// dereference for composite set symbols.  Totality on ill-typed input is C10's subject.
				kinds = bytesWithout(kinds, 'n')
			}
			g.count("typing:unchecked")
		} else {
			if nullable && (op == "eq" || op == "ne") && r.chance(1, 6) {
				g.count("atom:cmp-null")
				return &c01Node{kind: "cmp", op: op, l: l, lit: c01Lit{kind: 'n'}}
			}
			kinds = c01OkLits(typ, op)
			for len(kinds) == 0 {
				op = pick(r, c01CmpOps[:2])
				kinds = c01OkLits(typ, op)
			}
		}
		g.count("atom:cmp:" + op)
		return &c01Node{kind: "cmp", op: op, l: l, lit: c01RandLit(r, pick(r, kinds))}
	case k < 16:
		l, typ, _ := g.lhs(sc, depth)
		var ak []byte
		switch {
		case ill || typ == ast.NodeTypeAnyType:
			ak = []byte{'s', 'n', 't'}
		case typ == ast.NodeTypeDatetime:
			ak = []byte{'t'}
		case typ == ast.NodeTypeBool:
			// no array type fits a bool: use a comparison instead
			return &c01Node{kind: "cmp", op: "eq", l: l, lit: c01RandLit(r, 'b')}
		default:
			ak = []byte{'s', 'n'}
		}
		n := &c01Node{kind: "in", l: l, arrK: pick(r, ak)}
		cnt := 1 + r.intn(3)
		for i := 0; i < cnt; i++ {
			switch n.arrK {
			case 's':
				n.arr = append(n.arr, c01RandLit(r, 's'))
			case 't':
				n.arr = append(n.arr, c01RandLit(r, 't'))
			default:
				n.arr = append(n.arr, c01RandLit(r, pick(r, []byte{'i', 'i', 'f'})))
			}
		}
		g.count("atom:in:" + string(n.arrK))
		if r.chance(1, 3) {
			return &c01Node{kind: "notE", l: n}
		}
		return n
	default:
		l, typ, _ := g.lhs(sc, depth)
		var bk byte
		switch {
		case typ == ast.NodeTypeDatetime:
			bk = 't'
		case typ == ast.NodeTypeAnyType || ill:
			bk = pick(r, []byte{'t', 'n'})
		case typ == ast.NodeTypeInt64 || typ == ast.NodeTypeFloat64:
			bk = 'n'
		default:
			return &c01Node{kind: "cmp", op: "ne", l: l, lit: c01RandLit(r, pick(r, c01OkLits(typ, "ne")))}
		}
		n := &c01Node{kind: "bet", l: l}
		if bk == 't' {
			n.lo, n.hi = c01RandLit(r, 't'), c01RandLit(r, 't')
		} else {
			n.lo, n.hi = c01RandLit(r, pick(r, []byte{'i', 'i', 'f'})), c01RandLit(r, pick(r, []byte{'i', 'i', 'f'}))
		}
		g.count("atom:between:" + string(bk))
		if r.chance(1, 3) {
			return &c01Node{kind: "notE", l: n}
		}
		return n
	}
}

func (g *c01Gen_) filter(sc *c01Schema, depth int) *c01Node {
	r := g.r
	if depth <= 0 || r.chance(2, 5) {
		return g.atom(sc, depth)
	}
	switch r.intn(5) {
	case 0:
		g.count("conn:not")
		return &c01Node{kind: "unot", l: g.filter(sc, depth-1)}
	case 1, 2:
		g.count("conn:and")
		return &c01Node{kind: "and", l: g.filter(sc, depth-1), r: g.filter(sc, depth-1)}
	default:
		g.count("conn:or")
		return &c01Node{kind: "or", l: g.filter(sc, depth-1), r: g.filter(sc, depth-1)}
	}
}

// ------------------------------------------------------------------------------------ case lines

func c01FmtTable(fs []float64, is []int64) string {
	seen := map[uint64]string{}
	var keys []uint64
	add := func(f float64) {
		b := math.Float64bits(f)
		if _, ok := seen[b]; !ok {
			seen[b] = strconv.FormatFloat(f, 'f', -1, 64)
			keys = append(keys, b)
		}
	}
	for _, f := range fs {
		add(f)
	}
	for _, i := range is {
		add(float64(i))
	}
	sort.Slice(keys, func(i, j int) bool { return keys[i] < keys[j] })
	var b strings.Builder
	b.WriteString(strconv.Itoa(len(keys)))
	for _, k := range keys {
		fmt.Fprintf(&b, " %d %s", k, toWire(seen[k]))
	}
	return b.String()
}

// numbers stored in a value (for the FormatFloat table)
func c01ValNumbers(v c01Val, fs *[]float64, is *[]int64) {
	switch {
	case strings.HasPrefix(v.tok, "F:"):
		bits, _ := strconv.ParseUint(v.tok[2:], 10, 64)
		*fs = append(*fs, math.Float64frombits(bits))
	case strings.HasPrefix(v.tok, "i64:"):
		i, _ := strconv.ParseInt(v.tok[4:], 10, 64)
		*is = append(*is, i)
	case strings.HasPrefix(v.tok, "i32:"):
		i, _ := strconv.ParseInt(v.tok[4:], 10, 64)
		*is = append(*is, i)
	}
}

func c01MemLine(syms []*c01Sym, rows []*c01Row, f *c01Node) string {
	var b strings.Builder
	fmt.Fprintf(&b, "m %d", len(syms))
	for _, s := range syms {
		fmt.Fprintf(&b, " %s %s %d %d", s.name, c01TypeTok[s.typ], b2i(s.isSet), b2i(s.seekable))
	}
	var fs []float64
	var is []int64
	fmt.Fprintf(&b, " %d", len(rows))
	for _, row := range rows {
		for _, s := range syms {
			if s.isSet {
				vals := row.sets[s.name]
				fmt.Fprintf(&b, " L%d", len(vals))
				for _, v := range vals {
					b.WriteString(" " + v.tok)
					c01ValNumbers(v, &fs, &is)
				}
			} else {
				v := row.scalars[s.name]
				b.WriteString(" " + v.tok)
				c01ValNumbers(v, &fs, &is)
			}
		}
	}
	f.numbers(&fs, &is)
	b.WriteString(" " + c01FmtTable(fs, is))
	var toks []string
	f.tokens(&toks)
	b.WriteString(" " + strings.Join(toks, " "))
	b.WriteString(" @ " + toWire(f.zql()))
	return b.String()
}

func bytesWithout(bs []byte, x byte) []byte {
	var out []byte
	for _, b := range bs {
		if b != x {
			out = append(out, b)
		}
	}
	return out
}

func b2i(b bool) int {
	if b {
		return 1
	}
	return 0
}

func c01Gen(tier string, seed uint64, out *bufio.Writer) {
	if tier == "corpus" {
		c01GenCorpus(out)
		return
	}
	r := newRng(seed)
	nMem, nBolt := 12000, 4500
	depth := 3
	if tier == "thorough" {
		nMem, nBolt, depth = 60000, 20000, 5
	}
	g := &c01Gen_{r: r, illRate: 6}
	sc := c01SchemaOf(c01MemSyms)
	var rows []*c01Row
	for i := 0; i < nMem; i++ {
		if i%5 == 0 {
			rows = rows[:0]
			for j := 0; j < 6; j++ {
				rows = append(rows, c01MemRow(r))
			}
		}
		d := 1 + r.intn(depth)
		if i%3 == 0 {
			d = 0 // plenty of single atoms: they exercise the dispatch table most directly
		}
		out.WriteString(c01MemLine(c01MemSyms, rows, g.filter(sc, d)))
		out.WriteByte('\n')
	}
	c01GenAtoms(tier, r, out)
	c01GenSeekMixed(tier, r, out)
	c01GenBolt(tier, r, nBolt, depth, out)
	c01GenSelfRef(tier, r, out)
}

// the seek shortcut over buckets that hold more than strings: `anyOf(s) = "<what an element renders to>"`
// for an element of any type of a seekable set (m cases), and of the any-typed set of the bolt universe
func c01GenSeekMixed(tier string, r *rng, out *bufio.Writer) {
	n := 60
	if tier == "thorough" {
		n = 400
	}
	render := func(v c01Val) (string, bool) {
		s := boltz.FieldToString(v.ft, v.b)
		if s == nil {
			return "", false
		}
		for i := 0; i < len(*s); i++ {
			if (*s)[i] < 0x20 || (*s)[i] > 0x7e {
				return "", false
			}
		}
		return *s, true
	}
	for i := 0; i < n; i++ {
		var rows []*c01Row
		for j := 0; j < 4; j++ {
			rows = append(rows, c01MemRow(r))
		}
		name := pick(r, []string{"sx", "sx", "ss"})
		var cands []c01Val
		for _, row := range rows {
			cands = append(cands, row.sets[name]...)
		}
		if len(cands) == 0 {
			continue
		}
		if lit, ok := render(pick(r, cands)); ok {
			f := &c01Node{kind: "cmp", op: pick(r, []string{"eq", "eq", "ne"}), l: &c01Node{kind: "fn", fn: pick(r, []string{"anyOf", "anyOf", "allOf"}), name: name},
				lit: c01Lit{kind: 's', s: lit}}
			out.WriteString(c01MemLine(c01MemSyms, rows, f))
			out.WriteByte('\n')
		}
	}
	for i := 0; i < n/2; i++ {
		ds := c01GenDataset(r)
		var cands []c01Val
		for _, e := range ds.rows[0] {
			cands = append(cands, e.sets["mixed"]...)
		}
		if len(cands) == 0 {
			continue
		}
		if lit, ok := render(pick(r, cands)); ok {
			f := &c01Node{kind: "cmp", op: "eq", l: &c01Node{kind: "fn", fn: "anyOf", name: pick(r, []string{"mixed", "mixed", "boss.mixed"})},
				lit: c01Lit{kind: 's', s: lit}}
			out.WriteString(c01BoltLine(ds, 0, f))
			out.WriteByte('\n')
		}
	}
}

// ------------------------------------------------------------------------------------ exec

type c01Toks struct {
	t []string
	p int
}

func (t *c01Toks) next() string {
	s := t.t[t.p]
	t.p++
	return s
}
func (t *c01Toks) int() int {
	n, err := strconv.Atoi(t.next())
	if err != nil {
		panic("bad case: int expected")
	}
	return n
}

func c01ParseVal(tok string) c01Val {
	switch {
	case tok == "N":
		return c01Nil()
	case tok == "B0":
		return c01Bool(false)
	case tok == "B1":
		return c01Bool(true)
	case strings.HasPrefix(tok, "i32:"):
		i, _ := strconv.ParseInt(tok[4:], 10, 64)
		return c01Int32(int32(i))
	case strings.HasPrefix(tok, "i64:"):
		i, _ := strconv.ParseInt(tok[4:], 10, 64)
		return c01Int64(i)
	case strings.HasPrefix(tok, "F:"):
		bits, _ := strconv.ParseUint(tok[2:], 10, 64)
		return c01Float(math.Float64frombits(bits))
	case strings.HasPrefix(tok, "S:"):
		return c01Str(fromWire(tok[2:]))
	case strings.HasPrefix(tok, "T:"):
		parts := strings.Split(tok, ":")
		t, err := time.Parse(time.RFC3339Nano, fromWire(parts[2]))
		if err != nil {
			panic(err)
		}
		return c01TimeVal(t)
	}
	panic("bad value token " + tok)
}

func c01ParseSet(t *c01Toks) []c01Val {
	h := t.next()
	n, _ := strconv.Atoi(h[1:])
	vals := make([]c01Val, 0, n)
	for i := 0; i < n; i++ {
		vals = append(vals, c01ParseVal(t.next()))
	}
	return vals
}

func c01ZqlOf(t *c01Toks) string {
	for i := len(t.t) - 1; i >= 0; i-- {
		if t.t[i] == "@" {
			return fromWire(t.t[i+1])
		}
	}
	panic("bad case: no @")
}

func c01ExecMem(t *c01Toks) string {
	n := t.int()
	syms := make([]*c01Sym, n)
	symMap := map[string]*c01Sym{}
	for i := range syms {
		s := &c01Sym{name: t.next()}
		s.typ = c01TokType[t.next()]
		s.isSet = t.next() == "1"
		s.seekable = t.next() == "1"
		syms[i] = s
		symMap[s.name] = s
	}
	nr := t.int()
	rows := make([]*c01Row, nr)
	for i := range rows {
		row := &c01Row{scalars: map[string]c01Val{}, sets: map[string][]c01Val{}}
		for _, s := range syms {
			if s.isSet {
				row.sets[s.name] = c01ParseSet(t)
			} else {
				row.scalars[s.name] = c01ParseVal(t.next())
			}
		}
		rows[i] = row
	}
	text := c01ZqlOf(t)
	symbols := &c01Symbols{syms: symMap, cur: map[string]*c01Cursor{}}
	query, err := ast.Parse(symbols, text)
	if err != nil {
		return "err"
	}
	var b strings.Builder
	b.WriteString("ok ")
	b.WriteString(c01ShapeOf(query))
	for pass := 0; pass < 2; pass++ {
		b.WriteByte(' ')
		symbols.noSeek = pass == 1
		for _, row := range rows {
			symbols.row = row
			symbols.cur = map[string]*c01Cursor{}
			if query.EvalBool(symbols) {
				b.WriteByte('1')
			} else {
				b.WriteByte('0')
			}
		}
	}
	return b.String()
}

func c01Exec(line string) string {
	t := &c01Toks{t: fields(line)}
	switch t.next() {
	case "m":
		return c01ExecMem(t)
	case "b":
		return c01ExecBolt(t)
	}
	return "bad-case"
}
