package main

// Shared by the C03 and C06 harnesses: temporary bolt database, canonical whole-database dump
// (boltz.Traverse), error enum, wire helpers for lists.

import (
	"encoding/hex"
	"os"
	"path/filepath"
	"sort"
	"strings"

	"github.com/openziti/storage/boltz"
	"go.etcd.io/bbolt"
)

type csDb struct {
	dir string
	db  *boltz.DbImpl
}

func csOpenDb() *csDb {
	dir, err := os.MkdirTemp("", "verif-*")
	if err != nil {
		panic(err)
	}
	db, err := boltz.Open(filepath.Join(dir, "t.db"), "u")
	if err != nil {
		_ = os.RemoveAll(dir)
		panic(err)
	}
	return &csDb{dir: dir, db: db}
}

func (d *csDb) close() {
	_ = d.db.Close()
	_ = os.RemoveAll(d.dir)
}

// csHex: hex of a byte string, "-" for empty (also for nil)
func csHex(b []byte) string {
	if len(b) == 0 {
		return "-"
	}
	return hex.EncodeToString(b)
}

// csList: wire form of a list of byte strings: elements joined by "+", "." for the empty list
func csList(xs []string) string {
	if len(xs) == 0 {
		return "."
	}
	ws := make([]string, len(xs))
	for i, x := range xs {
		ws[i] = toWire(x)
	}
	return strings.Join(ws, "+")
}

func csParseList(s string) []string {
	if s == "." {
		return nil
	}
	var res []string
	for _, w := range strings.Split(s, "+") {
		res = append(res, fromWire(w))
	}
	return res
}

// csOpt: wire form of an optional byte string: "~" for nil
func csOpt(p *string) string {
	if p == nil {
		return "~"
	}
	return toWire(*p)
}

func csParseOpt(s string) *string {
	if s == "~" {
		return nil
	}
	v := fromWire(s)
	return &v
}

// csDumpVisitor collects every bucket and every key/value pair of the database.
//
//	B:<path>            a bucket; <path> = hex path elements joined by "/"
//	K:<path>=<value>    a key with its value (hex, "-" for empty)
type csDumpVisitor struct {
	lines []string
	raw   []csRawLine
}

type csRawLine struct {
	path  []string // bucket path elements (raw bytes), for K lines without the key
	key   []byte
	value []byte
	isB   bool
}

func csPath(path string, key []byte) string {
	// Traverse builds "<base>/<key>/<key>..." with raw key bytes; keys of the universe never contain '/'
	parts := strings.Split(path, "/")
	var hs []string
	for i, p := range parts {
		if i == 0 && p == "" {
			continue
		}
		hs = append(hs, csHex([]byte(p)))
	}
	hs = append(hs, csHex(key))
	return strings.Join(hs, "/")
}

func csPathElems(path string) []string {
	parts := strings.Split(path, "/")
	var res []string
	for i, p := range parts {
		if i == 0 && p == "" {
			continue
		}
		res = append(res, p)
	}
	return res
}

func (v *csDumpVisitor) VisitBucket(path string, key []byte, _ *bbolt.Bucket) bool {
	v.lines = append(v.lines, "B:"+csPath(path, key))
	v.raw = append(v.raw, csRawLine{path: csPathElems(path), key: append([]byte{}, key...), isB: true})
	return true
}

func (v *csDumpVisitor) VisitKeyValue(path string, key, value []byte) bool {
	v.lines = append(v.lines, "K:"+csPath(path, key)+"="+csHex(value))
	v.raw = append(v.raw, csRawLine{path: csPathElems(path), key: append([]byte{}, key...), value: append([]byte{}, value...)})
	return true
}

// csDump returns the canonical (sorted) dump of the whole database and the raw visited entries.
func csDump(tx *bbolt.Tx) (string, []csRawLine) {
	v := &csDumpVisitor{}
	boltz.Traverse(tx, "", v)
	sort.Strings(v.lines)
	if len(v.lines) == 0 {
		return ".", v.raw
	}
	return strings.Join(v.lines, ","), v.raw
}

// csScanFor is the independent byte-level scan used by C06: does the id occur as a path element,
// key or value — plain or with the string type byte in front — anywhere in the dump?
func csScanFor(raw []csRawLine, id string) string {
	typed := string(boltz.PrependFieldType(boltz.TypeString, []byte(id)))
	hit := func(b string) bool { return b == id || b == typed }
	inPath, inKey, inValue := false, false, false
	for _, l := range raw {
		for _, p := range l.path {
			if hit(p) {
				inPath = true
			}
		}
		if hit(string(l.key)) {
			inKey = true
		}
		if !l.isB && hit(string(l.value)) {
			inValue = true
		}
	}
	// one verdict, independent of the visiting order
	switch {
	case inPath:
		return "path"
	case inKey:
		return "key"
	case inValue:
		return "value"
	}
	return "clean"
}

// csErrKind maps an error to the small enum shared with the model.
func csErrKind(err error) string {
	if err == nil {
		return "ok"
	}
	if boltz.IsUniqueIndexDuplicateError(err) {
		return "dup"
	}
	if boltz.IsErrNotFoundErr(err) {
		return "notfound"
	}
	if boltz.IsReferenceExistsError(err) {
		return "refexists"
	}
	msg := err.Error()
	if strings.Contains(msg, "does not allow null or empty values") {
		return "null"
	}
	if strings.Contains(msg, "already exists with id") {
		return "exists"
	}
	return "other"
}

func csSortedCopy(xs []string) []string {
	ys := append([]string{}, xs...)
	sort.Strings(ys)
	return ys
}

func csHexOrNil(b []byte) string {
	if b == nil {
		return "~"
	}
	return csHex(b)
}

// csGenAlias: nil 40 %, empty string 10 %, a value otherwise
func csGenAlias(r *rng, vals []string) *string {
	switch r.intn(10) {
	case 0, 1, 2, 3:
		return nil
	case 4:
		e := ""
		return &e
	}
	v := pick(r, vals)
	return &v
}
