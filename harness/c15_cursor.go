package main

// C15 — the id cursors the stores hand out, driven by scripts of Next / Seek calls, and
// QueryWithCursorC over a caller-provided cursor (case lines of kind `k`, see
// lean/StorageModel/Driver/C15.lean):
//
//	k <history> <item>;<item>;…
//	  <s>/i/<filter>/<steps>            IterateIds(filter) through store s
//	  <s>/v/<filter>/<steps>            IterateValidIds(filter)
//	  <s>/q/<filter>/<u|s>/<provider>   QueryWithCursorC, provider l<ids> | x<role>
//	  <s>/p|P/<filter>/<skip>/<limit>/<steps>, <s>/Q/<filter>/<skip>/<limit>   paged walks / QueryIds (c15_paging.go)
//
// The history is executed as for `h` lines (all observations after every transaction); the items
// run afterwards in one read transaction.

import (
	"bufio"
	"fmt"
	"strconv"
	"strings"

	"github.com/openziti/storage/ast"
	"github.com/openziti/storage/boltz"
	"go.etcd.io/bbolt"
)

const c15CurIds = 8 // ids e1..e8 in cursor cases; seek targets 0 (before all) .. 9 (after all)

var c15FilterText = map[string]string{"t": "true", "n1": `name = "v1"`, "r1": `anyOf(roles) = "r1"`}

func c15SeekKey(k int) []byte {
	if k > 9 {
		k = 9
	}
	return []byte("e" + strconv.Itoa(k)) // "e0" < "e1" < … < "e8" < "e9"
}

// the caller's cursor over a fixed list of ids (not seekable, as most providers are)
type c15SliceCursor struct{ ids [][]byte }

func (c *c15SliceCursor) Next() {
	if len(c.ids) > 0 {
		c.ids = c.ids[1:]
	}
}
func (c *c15SliceCursor) IsValid() bool { return len(c.ids) > 0 }
func (c *c15SliceCursor) Current() []byte {
	if len(c.ids) == 0 {
		return nil
	}
	return c.ids[0]
}

func c15CurStr(c ast.SetCursor) string {
	if !c.IsValid() {
		return "-"
	}
	return c15Code("e", string(c.Current()))
}

func (s *c15Stores) runItem(tx *bbolt.Tx, item string) string {
	f := strings.Split(item, "/")
	if len(f) < 4 {
		return "bad-item"
	}
	sel, err := strconv.Atoi(f[0])
	if err != nil || sel < 0 || sel > 2 {
		return "bad-item"
	}
	store := []boltz.Store{s.a, s.a1, s.a2}[sel]
	text, ok := c15FilterText[f[2]]
	if !ok {
		return "bad-item"
	}
	switch f[1] {
	case "p", "P", "Q":
		return s.runPagedItem(tx, store, sel, text, f)
	case "i", "v":
		var filter ast.BoolNode = ast.BoolNodeTrue
		if f[2] != "t" {
			q, err := ast.Parse(store, text)
			if err != nil {
				return "err:" + toWire(err.Error())
			}
			filter = q
		}
		var cursor ast.SeekableSetCursor
		if f[1] == "i" {
			cursor = store.IterateIds(tx, filter)
		} else {
			cursor = store.IterateValidIds(tx, filter)
		}
		out := []string{c15CurStr(cursor)}
		if f[3] != "-" {
			for _, st := range strings.Split(f[3], ".") {
				if st == "n" {
					cursor.Next()
				} else if strings.HasPrefix(st, "s") {
					k, err := strconv.Atoi(st[1:])
					if err != nil {
						return "bad-item"
					}
					cursor.Seek(c15SeekKey(k))
				} else {
					return "bad-item"
				}
				out = append(out, c15CurStr(cursor))
			}
		}
		return strings.Join(out, ".")
	case "q":
		if len(f) != 5 {
			return "bad-item"
		}
		if f[3] == "s" {
			text += " sort by name"
		}
		query, err := ast.Parse(store, text)
		if err != nil {
			return "err:" + toWire(err.Error())
		}
		var provider ast.SetCursorProvider
		switch {
		case strings.HasPrefix(f[4], "l"):
			var ids [][]byte
			if f[4] != "l-" {
				for _, x := range strings.Split(f[4][1:], ".") {
					k, err := strconv.Atoi(x)
					if err != nil {
						return "bad-item"
					}
					// the provider enumerates entities that exist
					if s.a.IsEntityPresent(tx, c15IdS(k)) {
						ids = append(ids, []byte(c15IdS(k)))
					}
				}
			}
			provider = func(*bbolt.Tx, bool) ast.SetCursor { return &c15SliceCursor{ids: ids} }
		case strings.HasPrefix(f[4], "x"):
			r, err := strconv.Atoi(f[4][1:])
			if err != nil {
				return "bad-item"
			}
			provider = func(tx *bbolt.Tx, forward bool) ast.SetCursor {
				return s.roleIdx.OpenValueCursor(tx, []byte(c15RoleS(r)), forward)
			}
		default:
			return "bad-item"
		}
		ids, count, err := store.QueryWithCursorC(tx, provider, query)
		if err != nil {
			return "err:" + toWire(err.Error())
		}
		out := c15Ids(ids)
		if int(count) != len(ids) {
			out += "#" + strconv.Itoa(int(count))
		}
		return out
	}
	return "bad-item"
}

func (s *c15Stores) runItems(tx *bbolt.Tx, items string) string {
	var out []string
	for _, it := range strings.Split(items, ";") {
		out = append(out, it+"="+s.runItem(tx, it))
	}
	return "K " + strings.Join(out, " ")
}

// ---------------------------------------------------------------- generator

// population kinds of one id
const (
	c15Absent = iota
	c15Plain  // created through A only
	c15K1     // A1 data
	c15K2     // A2 (extension) data
	c15Both   // A1 and A2 data
)

// the creates for a population (kinds[i] is the kind of id i+1), in the given order of ids, one
// transaction; names are unique (v<id>), roles drawn from r1..r3
func c15PopulationTx(r *rng, kinds []int, order []int) string {
	var ops []string
	for _, i := range order {
		id := i + 1
		roles := c15ValidRoles(r)
		switch kinds[i] {
		case c15Plain:
			ops = append(ops, fmt.Sprintf("c/0/%d/%d/%s/n", id, id, roles))
		case c15K1:
			ops = append(ops, fmt.Sprintf("c/1/%d/%d/%s/%d", id, id, roles, id))
		case c15K2:
			ops = append(ops, fmt.Sprintf("c/2/%d/%d/%s/%s", id, id, roles, c15Child(r)))
		case c15Both:
			a, b := 1, 2
			if r.chance(1, 2) {
				a, b = 2, 1
			}
			ops = append(ops, fmt.Sprintf("c/%d/%d/%d/%s/%d", a, id, id, roles, id))
			ops = append(ops, fmt.Sprintf("c/%d/%d/%d/%s/%d", b, id, id, roles, id))
		}
	}
	if len(ops) == 0 {
		return "d/0/1" // empty population: a delete that fails
	}
	return strings.Join(ops, ",")
}

// roles the parent strategy accepts (a refused create would abort the population's transaction)
func c15ValidRoles(r *rng) string {
	n := r.intn(4)
	if n == 0 {
		return "-"
	}
	var out []string
	for i := 0; i < n; i++ {
		out = append(out, strconv.Itoa(1+r.intn(3)))
	}
	return strings.Join(out, ".")
}

func c15Shuffled(r *rng, n int) []int {
	p := make([]int, n)
	for i := range p {
		p[i] = i
	}
	for i := n - 1; i > 0; i-- {
		j := r.intn(i + 1)
		p[i], p[j] = p[j], p[i]
	}
	return p
}

func c15RandSteps(r *rng, n int, maxTarget int) string {
	var st []string
	for i := 0; i < n; i++ {
		if r.chance(1, 2) {
			st = append(st, "n")
		} else {
			st = append(st, "s"+strconv.Itoa(r.intn(maxTarget+1)))
		}
	}
	return strings.Join(st, ".")
}

// every target once, each followed by two Next calls
func c15SweepSteps(maxTarget int) string {
	var st []string
	for v := 0; v <= maxTarget; v++ {
		st = append(st, "s"+strconv.Itoa(v), "n", "n")
	}
	return strings.Join(st, ".")
}

func c15RandFilter(r *rng) string {
	switch r.intn(10) {
	case 0:
		return "n1"
	case 1, 2:
		return "r1"
	}
	return "t"
}

func c15RandProvider(r *rng, nids int) string {
	if r.chance(1, 3) {
		return "x" + strconv.Itoa(1+r.intn(3))
	}
	p := c15Shuffled(r, nids)
	k := r.intn(nids + 1)
	if k == 0 {
		return "l-"
	}
	var ids []string
	for _, i := range p[:k] {
		ids = append(ids, strconv.Itoa(i+1))
	}
	return "l" + strings.Join(ids, ".")
}

func c15QueryItems(r *rng, nids int, n int) []string {
	var items []string
	for i := 0; i < n; i++ {
		sortFlag := "u"
		if r.chance(1, 3) {
			sortFlag = "s"
		}
		items = append(items, fmt.Sprintf("%d/q/%s/%s/%s", r.intn(3), c15RandFilter(r), sortFlag, c15RandProvider(r, nids)))
	}
	return items
}

// a population built from runs: runs of 0..4 ids without child data (plain or absent) between
// entities with child data, so that runs of every length occur at the start, in the middle and at
// the end of the key space
func c15RunPopulation(r *rng, nids int) []int {
	kinds := make([]int, nids)
	i := 0
	for i < nids {
		run := r.intn(5)
		for j := 0; j < run && i < nids; j++ {
			if r.chance(1, 6) {
				kinds[i] = c15Absent
			} else if r.chance(1, 5) {
				kinds[i] = c15K1 // no extension data either: part of the run as A2 sees it
			} else {
				kinds[i] = c15Plain
			}
			i++
		}
		if i < nids {
			kinds[i] = pick(r, []int{c15K2, c15K2, c15Both, c15K1})
			i++
		}
	}
	return kinds
}

func c15GenCursorCases(tier string, r *rng, out *bufio.Writer) {
	// bounded-exhaustive: every population of nEx ids over the five kinds; every cursor of every
	// store swept with a seek to every target, plus one random script each, plus two provider queries
	nEx, nRand := 4, 300
	if tier == "thorough" {
		nEx, nRand = 5, 3000
	}
	total := 1
	for i := 0; i < nEx; i++ {
		total *= 5
	}
	for code := 0; code < total; code++ {
		kinds := make([]int, nEx)
		c := code
		for i := 0; i < nEx; i++ {
			kinds[i] = c % 5
			c /= 5
		}
		var items []string
		for sel := 0; sel < 3; sel++ {
			for _, kind := range []string{"i", "v"} {
				items = append(items, fmt.Sprintf("%d/%s/t/%s", sel, kind, c15SweepSteps(nEx+1)))
				items = append(items, fmt.Sprintf("%d/%s/%s/%s", sel, kind, c15RandFilter(r), c15RandSteps(r, 4+r.intn(6), nEx+1)))
			}
		}
		items = append(items, c15QueryItems(r, nEx, 2)...)
		fmt.Fprintf(out, "k %s %s\n", c15PopulationTx(r, kinds, c15Shuffled(r, nEx)), strings.Join(items, ";"))
	}
	// random: run-structured populations over 8 ids, sometimes followed by a few ordinary
	// transactions (deletes, updates, creates over existing ids) before the cursors are opened
	for n := 0; n < nRand; n++ {
		kinds := c15RunPopulation(r, c15CurIds)
		hist := c15PopulationTx(r, kinds, c15Shuffled(r, c15CurIds))
		if r.chance(1, 3) {
			g := &c15GenState{parent: map[int]bool{}, c1: map[int]bool{}, c2: map[int]bool{}, name: map[int]int{}, maybe: map[int]bool{}}
			for i, k := range kinds {
				if i < c15NIds && k != c15Absent {
					g.parent[i+1] = true
					g.name[i+1] = i + 1
					g.c1[i+1] = k == c15K1 || k == c15Both
					g.c2[i+1] = k == c15K2 || k == c15Both
				}
			}
			for j, m := 0, 1+r.intn(3); j < m; j++ {
				hist += ";" + c15GenOp(r, g, true, true)
			}
		}
		var items []string
		for j := 0; j < 6; j++ {
			sel := pick(r, []int{0, 1, 1, 2, 2, 2})
			kind := pick(r, []string{"i", "v", "v"})
			items = append(items, fmt.Sprintf("%d/%s/%s/%s", sel, kind, c15RandFilter(r), c15RandSteps(r, 3+r.intn(10), c15CurIds+1)))
		}
		items = append(items, fmt.Sprintf("2/v/t/%s", c15SweepSteps(c15CurIds+1)))
		items = append(items, c15QueryItems(r, c15CurIds, 3)...)
		fmt.Fprintf(out, "k %s %s\n", hist, strings.Join(items, ";"))
	}
}
