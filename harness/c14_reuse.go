package main

// C14 — cursor objects that are re-used: one runtime set symbol / one row cursor / one provider is
// opened again and again on rows of ONE store, each time after having been left at some position.
//
// case line:   R;MODE;PATH;THINGS;OTHERS;KEEP <segments>       (see lean/StorageModel/Driver/C14.lean)
//
//	MODE  d  sym := things.GetSymbol(PATH) once; every segment sym.OpenCursor(tx, root)
//	      r  the ast.Symbols (rowCursorImpl) of one IterateIds scan: NextRow(root); OpenSetCursor(PATH)
//	      q  same row cursor: NextRow(root); OpenSetCursorForQuery(PATH, query accepting the ids KEEP)
//	      n  a provider that builds a new cursor per call (relf relr link rclinkf rclinkr)
//	segments  ROOT:ops '/' ROOT:ops …   (ROOT = id of a thing, hex; an id without entity is allowed)
//
// output: for every segment the observation after opening and after every operation.

import (
	"bufio"
	"context"
	"fmt"
	"strings"

	"github.com/openziti/storage/ast"
	"github.com/openziti/storage/boltz"
	"go.etcd.io/bbolt"
)

type c14Seg struct {
	root string
	ops  []c14Op
}

func c14ParseSegs(s string) []c14Seg {
	var res []c14Seg
	for _, p := range strings.Split(s, "/") {
		f := strings.SplitN(p, ":", 2)
		if len(f) != 2 {
			panic("bad segment " + p)
		}
		res = append(res, c14Seg{root: fromWire(f[0]), ops: c14ParseOps(f[1])})
	}
	return res
}

func c14ShowSegs(segs []c14Seg) string {
	ws := make([]string, len(segs))
	for i, s := range segs {
		ws[i] = toWire(s.root) + ":" + c14ShowOps(s.ops)
	}
	return strings.Join(ws, "/")
}

type c14ReuseFx struct {
	mode, path string
	keep       map[string]bool
	skip       *int64 // sub-query paging (mode q.S.L)
	limit      *int64
	st         *c14Stores
}

const c14Sentinel = "zz-sentinel!"

// the query of a sub-query: accepts the rows whose id is in `keep`; no paging
type c14SubQuery struct {
	keep  map[string]bool
	skip  *int64
	limit *int64
}

func (q *c14SubQuery) String() string        { return "id in keep" }
func (q *c14SubQuery) GetType() ast.NodeType { return ast.NodeTypeBool }
func (q *c14SubQuery) Accept(ast.Visitor)    {}
func (q *c14SubQuery) IsConst() bool         { return false }
func (q *c14SubQuery) EvalBool(s ast.Symbols) bool {
	id := s.EvalString("id")
	return id != nil && q.keep[*id]
}
func (q *c14SubQuery) GetPredicate() ast.BoolNode       { return q }
func (q *c14SubQuery) SetPredicate(ast.BoolNode)        {}
func (q *c14SubQuery) GetSortFields() []ast.SortField   { return nil }
func (q *c14SubQuery) AdoptSortFields(ast.Query) error  { return nil }
func (q *c14SubQuery) GetSkip() *int64                  { return q.skip }
func (q *c14SubQuery) GetLimit() *int64                 { return q.limit }
func (q *c14SubQuery) SetSkip(v int64)                  { q.skip = &v }
func (q *c14SubQuery) SetLimit(v int64)                 { q.limit = &v }

// a filter that hands the row cursor of the scan to the harness (on the first row it is asked about)
type c14CaptureFilter struct{ f func(s ast.Symbols) }

func (c14CaptureFilter) String() string        { return "capture" }
func (c14CaptureFilter) GetType() ast.NodeType { return ast.NodeTypeBool }
func (c14CaptureFilter) Accept(ast.Visitor)    {}
func (c14CaptureFilter) IsConst() bool         { return false }
func (c c14CaptureFilter) EvalBool(s ast.Symbols) bool {
	c.f(s)
	return true
}

func (fx *c14ReuseFx) setup(tx *bbolt.Tx, w *c14World) {
	st := c14NewStores("reuse", false)
	st.init(tx)
	fx.st = st
	ctx := boltz.NewTxMutateContext(context.Background(), tx)
	for _, o := range w.others {
		c14Must(st.others.Create(ctx, &c14Other{Id: o.id, Tags: o.tags, Name: o.name}))
	}
	for _, t := range w.things {
		c14Must(st.things.Create(ctx, &c14Thing{Id: t.id, Tags: t.tags, Others: t.others, Boss: t.boss}))
	}
	for _, t := range w.things {
		for i, id := range t.rc {
			for k := 0; k <= i%2; k++ {
				_, err := st.rcLinks.IncrementLinkCount(tx, []byte(t.id), []byte(id))
				c14Must(err)
			}
		}
		if t.hasRc && len(t.rc) == 0 {
			// linked once and unlinked again: the bucket exists and is empty
			if len(w.others) > 0 {
				o := []byte(w.others[0].id)
				_, err := st.rcLinks.IncrementLinkCount(tx, []byte(t.id), o)
				c14Must(err)
				_, err = st.rcLinks.DecrementLinkCount(tx, []byte(t.id), o)
				c14Must(err)
			}
		}
	}
	c14Must(st.things.Create(ctx, &c14Thing{Id: c14Sentinel}))
}

// run all segments on one object inside one transaction
func (fx *c14ReuseFx) run(tx *bbolt.Tx, segs []c14Seg) (res string) {
	var out []string
	defer func() {
		if r := recover(); r != nil {
			out = append(out, "panic")
			res = strings.Join(out, " ")
		}
	}()
	st := fx.st
	drive := func(open func(root string) ast.SetCursor) {
		for _, sg := range segs {
			c := open(sg.root)
			out = append(out, c14Observe(c))
			c14Drive(c, sg.ops, &out)
		}
	}
	switch fx.mode {
	case "d":
		sym := st.things.GetSymbol(fx.path).(boltz.RuntimeEntitySetSymbol)
		drive(func(root string) ast.SetCursor { return sym.OpenCursor(tx, []byte(root)) })
	case "r", "q":
		done := false
		filter := c14CaptureFilter{f: func(s ast.Symbols) {
			if done {
				return
			}
			done = true
			rows := s.(interface{ NextRow(id []byte) })
			// ONE query node per sub-query expression, used for every row (setPaging writes its defaults into it)
			query := &c14SubQuery{keep: fx.keep, skip: fx.skip, limit: fx.limit}
			drive(func(root string) ast.SetCursor {
				rows.NextRow([]byte(root))
				if fx.mode == "q" {
					return s.OpenSetCursorForQuery(fx.path, query)
				}
				return s.OpenSetCursor(fx.path)
			})
		}}
		st.things.IterateIds(tx, filter)
		if !done {
			panic("fixture: the scan did not reach the filter")
		}
	case "n":
		drive(func(root string) ast.SetCursor {
			switch fx.path {
			case "relf":
				return st.things.GetRelatedEntitiesCursor(tx, root, "tags", true)
			case "relr":
				return st.things.GetRelatedEntitiesCursor(tx, root, "tags", false)
			case "link":
				return st.links.IterateLinks(tx, []byte(root))
			case "rclinkf":
				return st.rcLinks.IterateLinks(tx, []byte(root), true)
			case "rclinkr":
				return st.rcLinks.IterateLinks(tx, []byte(root), false)
			}
			panic("bad provider " + fx.path)
		})
	default:
		panic("bad mode " + fx.mode)
	}
	return strings.Join(out, " ")
}

// the operations of c14Run on an already opened cursor
func c14Drive(c ast.SetCursor, ops []c14Op, out *[]string) {
	for _, o := range ops {
		switch o.kind {
		case 'n':
			c.Next()
		case 's':
			sc, ok := c.(ast.SeekableSetCursor)
			if !ok {
				*out = append(*out, "u")
				continue
			}
			sc.Seek([]byte(o.val))
		case 't':
			sc, ok := c.(ast.TypeSeekableSetCursor)
			if !ok {
				*out = append(*out, "u")
				continue
			}
			sc.SeekToString(o.val)
		}
		*out = append(*out, c14Observe(c))
	}
}

func c14ReuseExec(f []string) string {
	t := strings.Split(f[0], ";")
	if len(t) != 6 {
		return "bad-case"
	}
	segs := c14ParseSegs(f[1])
	db := c14GetDb()
	var first string
	fresh := false
	if c14Cur == nil || c14Cur.desc != f[0] {
		fx := &c14ReuseFx{mode: t[1], path: t[2], keep: map[string]bool{}}
		if m := strings.Split(t[1], "."); len(m) == 3 && m[0] == "q" {
			var sk, lim int64
			if _, err := fmt.Sscanf(m[1]+" "+m[2], "%d %d", &sk, &lim); err != nil {
				return "bad-case"
			}
			fx.mode, fx.skip = "q", &sk
			if lim >= 0 {
				fx.limit = &lim
			}
		}
		for _, k := range c14ParseSet(t[5]) {
			fx.keep[k] = true
		}
		w := c14ParseWorld(t[3], t[4])
		c14Cur = nil
		err := db.Update(func(tx *bbolt.Tx) error {
			if tx.Bucket([]byte(c14Root)) != nil {
				c14Must(tx.DeleteBucket([]byte(c14Root)))
			}
			fx.setup(tx, w)
			// first run inside the writing transaction (bbolt iterates its in-memory nodes)
			first = fx.run(tx, segs)
			return nil
		})
		c14Must(err)
		c14Cur = &c14Fixture{desc: f[0], reuse: fx}
		fresh = true
	}
	fx := c14Cur.reuse
	var res string
	c14Must(db.View(func(tx *bbolt.Tx) error {
		res = fx.run(tx, segs)
		return nil
	}))
	if fresh && first != res {
		return "tx-mismatch write-tx: " + first + " | read-tx: " + res
	}
	return res
}

// ---------------------------------------------------------------------------- generator

var c14SetPaths = []string{"tags", "others", "rcOthers"}
var c14CompPaths = []string{"others.tags", "others.name", "boss.tags", "others.things.tags", "others.things"}
var c14Providers = []string{"relf", "relr", "link", "rclinkf", "rclinkr"}

func c14GenReuseWorld(r *rng) (*c14World, []string) {
	w := &c14World{}
	oids := c14SubsetP(r, []string{"o1", "o2", "o\x00", "p", "\x05q"}, 5, true, 2, 3)
	for _, id := range oids {
		o := c14WOther{id: id, tags: c14SubsetP(r, c14Universe, 4, false, 1, 3)}
		if r.chance(2, 3) {
			v := pick(r, []string{"", "n", "nn", "\x00"})
			o.name = &v
		}
		w.others = append(w.others, o)
	}
	tids := c14SubsetP(r, []string{"e", "t1", "t2", "t\xff", "u"}, 5, true, 3, 4)
	for _, id := range tids {
		t := c14WThing{id: id, rcSet: true}
		// many rows with few or no elements: a cursor left on an element must meet an empty row
		if r.chance(2, 3) {
			t.tags = c14SubsetP(r, c14Universe, 4, false, 1, 3)
		}
		if r.chance(2, 3) {
			t.others = c14SubsetP(r, oids, len(oids), true, 1, 2)
		}
		if r.chance(1, 2) {
			t.hasRc = true
			t.rc = c14SubsetP(r, oids, len(oids), true, 1, 2)
			if len(oids) == 0 {
				t.hasRc = false
			}
		}
		if r.chance(2, 3) {
			v := pick(r, append(append([]string{}, tids...), "nobody"))
			t.boss = &v
		}
		w.things = append(w.things, t)
	}
	roots := append(append([]string{}, tids...), "missing")
	return w, roots
}

func c14GenSegs(r *rng, roots []string, targets []string, seek, seekS bool, maxSegs, maxOps int) []c14Seg {
	n := 2 + r.intn(maxSegs-1)
	segs := make([]c14Seg, n)
	sh := c14Shape{seek: seek, seekS: seekS}
	for i := range segs {
		// short scripts dominate: the object is usually left before it is exhausted
		m := pick(r, []int{0, 0, 1, 1, 2, maxOps})
		segs[i] = c14Seg{root: pick(r, roots), ops: c14GenOps(r, sh, m, targets)}
	}
	return segs
}

func c14ReuseTargets(w *c14World) []string {
	res := append([]string{}, c14Targets...)
	add := func(e string) {
		// element-level targets and raw-key targets (the set symbol's Seek compares stored keys)
		res = append(res, e, e+"\x00", "\x05"+e, "\x05"+e+"\x00")
	}
	for _, t := range w.things {
		add(t.id)
		for _, x := range t.tags {
			add(x)
		}
	}
	for _, o := range w.others {
		add(o.id)
	}
	return res
}

func c14GenReuse(tier string, r *rng, out *bufio.Writer) {
	nWorlds, perWorld := 150, 12
	if tier == "thorough" {
		nWorlds, perWorld = 1200, 24
	}
	for i := 0; i < nWorlds; i++ {
		w, roots := c14GenReuseWorld(r)
		targets := c14ReuseTargets(w)
		var ids []string
		for _, o := range w.others {
			ids = append(ids, o.id)
		}
		for _, t := range w.things {
			ids = append(ids, t.id)
		}
		keep := c14ShowSet(c14SubsetP(r, ids, len(ids), true, 2, 3))
		mode := pick(r, []string{"d", "d", "r", "r", "q", "q", "n"})
		var path string
		seek, seekS := true, false
		switch mode {
		case "d", "r":
			if r.chance(3, 5) {
				path = pick(r, c14SetPaths)
				seekS = true
			} else {
				path = pick(r, c14CompPaths)
				seek = r.chance(1, 4) // a stacked cursor has no Seek: `u`
			}
		case "q":
			path = pick(r, []string{"others", "rcOthers", "others.things", "others", "rcOthers"})
		default:
			path = pick(r, c14Providers)
		}
		kp := "_"
		if mode == "q" {
			kp = keep
			if r.chance(1, 3) {
				// a paged sub-query (`skip S limit L`): Next only
				mode = fmt.Sprintf("q.%d.%d", r.intn(3), pick(r, []int{-1, 0, 1, 2, 5}))
				seek = false
			}
		}
		desc := "R;" + mode + ";" + path + ";" + w.String() + ";" + kp
		for j := 0; j < perWorld; j++ {
			fmt.Fprintf(out, "%s %s\n", desc, c14ShowSegs(c14GenSegs(r, roots, targets, seek, seekS, 5, 5)))
		}
	}
	c14GenReuseBlocks(tier, out)
}

// bounded-exhaustive: on a fixed world, every two-segment script (first segment: every script of length
// <= 2 over a small alphabet, on every row; second segment: every row, every script of length <= 1),
// and three-segment scripts in the thorough tier — for every re-used kind
func c14GenReuseBlocks(tier string, out *bufio.Writer) {
	a, b := "a", "b"
	w := &c14World{
		others: []c14WOther{{id: "o1", tags: []string{"a", "b"}, name: &a}, {id: "o2", tags: nil, name: nil}, {id: "o3", tags: []string{"b", "c"}, name: &b}},
		things: []c14WThing{
			{id: "e1", tags: []string{"a", "b"}, others: []string{"o1", "o3"}, boss: &b, rc: []string{"o1", "o3"}, hasRc: true, rcSet: true},
			{id: "e2", tags: nil, others: nil, boss: nil, rcSet: true},
			{id: "e3", tags: []string{"b", "c"}, others: []string{"o2"}, boss: &a, rc: nil, hasRc: true, rcSet: true},
			{id: "e4", tags: []string{""}, others: []string{"o3"}, rcSet: true},
		},
	}
	roots := []string{"e1", "e2", "e3", "e4", "missing"}
	type kind struct {
		mode, path, keep string
		alpha            []c14Op
	}
	n := c14Op{kind: 'n'}
	kinds := []kind{
		{"d", "tags", "_", []c14Op{n, {kind: 't', val: "b"}, {kind: 's', val: "\x05b"}}},
		{"r", "tags", "_", []c14Op{n, {kind: 't', val: "b"}, {kind: 's', val: "\x05b"}}},
		{"d", "others", "_", []c14Op{n, {kind: 't', val: "o2"}, {kind: 's', val: "\x05o3"}}},
		{"r", "rcOthers", "_", []c14Op{n, {kind: 't', val: "o2"}, {kind: 's', val: "\x05o3"}}},
		{"d", "others.tags", "_", []c14Op{n, {kind: 's', val: "b"}}},
		{"r", "others.tags", "_", []c14Op{n}},
		{"r", "boss.tags", "_", []c14Op{n}},
		{"d", "others.name", "_", []c14Op{n}},
		{"r", "others.things", "_", []c14Op{n}},
		{"q", "others", toWire("o1") + "," + toWire("o3"), []c14Op{n, {kind: 's', val: "\x05o2"}, {kind: 's', val: "o"}}},
		{"q", "rcOthers", toWire("o3"), []c14Op{n, {kind: 's', val: "\x05o2"}}},
		{"q", "others.things", toWire("e1") + "," + toWire("e4"), []c14Op{n, {kind: 's', val: "e2"}, {kind: 's', val: "e4"}}},
		{"q.1.1", "others", toWire("o1") + "," + toWire("o3") + "," + toWire("o2"), []c14Op{n}},
		{"q.0.1", "others.things", toWire("e1") + "," + toWire("e4") + "," + toWire("e3"), []c14Op{n}},
		{"q.1.-1", "rcOthers", toWire("o1") + "," + toWire("o3"), []c14Op{n}},
		{"n", "relf", "_", []c14Op{n, {kind: 's', val: "b"}}},
		{"n", "relr", "_", []c14Op{n, {kind: 's', val: "b"}}},
		{"n", "link", "_", []c14Op{n, {kind: 's', val: "o2"}}},
		{"n", "rclinkr", "_", []c14Op{n, {kind: 's', val: "o2"}}},
	}
	scripts := func(alpha []c14Op, k int) [][]c14Op {
		res := [][]c14Op{nil}
		last := [][]c14Op{nil}
		for i := 0; i < k; i++ {
			var next [][]c14Op
			for _, p := range last {
				for _, o := range alpha {
					next = append(next, append(p[:len(p):len(p)], o))
				}
			}
			res = append(res, next...)
			last = next
		}
		return res
	}
	for _, kd := range kinds {
		desc := "R;" + kd.mode + ";" + kd.path + ";" + w.String() + ";" + kd.keep
		first := scripts(kd.alpha, 2)
		second := scripts(kd.alpha, 1)
		for _, r1 := range roots {
			for _, s1 := range first {
				for _, r2 := range roots {
					for _, s2 := range second {
						fmt.Fprintf(out, "%s %s\n", desc, c14ShowSegs([]c14Seg{{r1, s1}, {r2, s2}}))
						if tier == "thorough" && len(s1) <= 1 {
							for _, r3 := range roots {
								for _, s3 := range second {
									fmt.Fprintf(out, "%s %s\n", desc, c14ShowSegs([]c14Seg{{r1, s1}, {r2, s2}, {r3, s3}}))
								}
							}
						}
					}
				}
			}
		}
	}
}
