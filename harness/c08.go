package main

// C08 — entity events: exactly once per committed change, none for undone work.
// Executor and generators: c07_c08_exec.go, c07_c08_gen.go.

import "bufio"

func init() {
	register("c08", &propHarness{gen: c08Gen, exec: txExec})
}

func c08Gen(tier string, seed uint64, out *bufio.Writer) {
	p := txProfile{maxTx: 4, maxSteps: 5, failBias: 12, listeners: 5, swallow: true, batch: 6}
	txGenCommon(tier, seed, out, 130, 2, 340, 8000, p, true)
}
